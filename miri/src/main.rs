//! Thread-interleaving scenarios run under Miri's seeded scheduler (-Zmiri-many-seeds).
//! Each seed is one exactly repeatable schedule (preemption points chosen by Miri's PRNG).
//!
//!   fcgimiri c13   one queued get_token while another thread drops the only token
//!   fcgimiri c14   shutdown future polled while other threads drop the tokens
use fastcgi_server::async_io::Token;
use fastcgi_server::Config;
use std::future::Future;
use std::pin::Pin;
use std::sync::atomic::{AtomicBool, AtomicUsize, Ordering};
use std::sync::Arc;
use std::task::{Context, Poll, Wake, Waker};

struct Flag {
    woken: AtomicBool,
    wakes: AtomicUsize,
}
impl Wake for Flag {
    fn wake(self: Arc<Self>) {
        self.wake_by_ref();
    }
    fn wake_by_ref(self: &Arc<Self>) {
        self.woken.store(true, Ordering::SeqCst);
        self.wakes.fetch_add(1, Ordering::SeqCst);
    }
}

fn violation(prop: &str, msg: &str) -> ! {
    eprintln!("MIRI-VIOLATION property={prop} {msg}");
    std::process::exit(1);
}

fn take_token(runner: &fastcgi_server::async_io::Runner) -> Token {
    let f = Arc::new(Flag { woken: AtomicBool::new(false), wakes: AtomicUsize::new(0) });
    let w = Waker::from(f);
    let mut cx = Context::from_waker(&w);
    let fut = runner.get_token();
    futures_util::pin_mut!(fut);
    match fut.poll(&mut cx) {
        Poll::Ready(t) => t,
        Poll::Pending => violation("C13", "a free slot was not granted at the first poll"),
    }
}

fn c13(limit: usize, waiters: usize) {
    let cfg = Config::with_conns(limit.try_into().unwrap());
    let runner = Arc::new(cfg.async_runner());
    let tokens: Vec<Token> = (0..limit).map(|_| take_token(&runner)).collect();
    // queued requests, each polled once to Pending
    let mut reqs: Vec<(Pin<Box<dyn Future<Output = Token>>>, Arc<Flag>)> = Vec::new();
    for _ in 0..waiters {
        let r = runner.clone();
        let fut: Pin<Box<dyn Future<Output = Token>>> = Box::pin(async move { r.get_token().await });
        let f = Arc::new(Flag { woken: AtomicBool::new(false), wakes: AtomicUsize::new(0) });
        reqs.push((fut, f));
    }
    for (fut, f) in &mut reqs {
        let w = Waker::from(f.clone());
        let mut cx = Context::from_waker(&w);
        if fut.as_mut().poll(&mut cx).is_ready() {
            violation("C13", "token granted beyond the limit");
        }
    }
    let done = Arc::new(AtomicBool::new(false));
    let d2 = done.clone();
    let dropper = std::thread::spawn(move || {
        for t in tokens {
            drop(t);
            std::thread::yield_now();
        }
        d2.store(true, Ordering::SeqCst);
    });
    // acquirer loop on this thread: poll a request whenever its waker fired
    let mut granted: Vec<Token> = Vec::new();
    let mut spins = 0u32;
    loop {
        let mut i = 0;
        while i < reqs.len() {
            if reqs[i].1.woken.swap(false, Ordering::SeqCst) {
                let w = Waker::from(reqs[i].1.clone());
                let mut cx = Context::from_waker(&w);
                if let Poll::Ready(t) = reqs[i].0.as_mut().poll(&mut cx) {
                    granted.push(t);
                    if granted.len() > limit { violation("C13", "more live tokens than the limit"); }
                    reqs.remove(i);
                    continue;
                }
            }
            i += 1;
        }
        if done.load(Ordering::SeqCst) { break; }
        spins += 1;
        if spins > 200_000 { violation("C13", "dropper thread never finished"); }
        std::thread::yield_now();
    }
    dropper.join().unwrap();
    // all tokens were released: every slot not re-granted is free now
    let free = limit - granted.len();
    let pending = reqs.len();
    if free > 0 && pending > 0 {
        let any_woken = reqs.iter().any(|(_, f)| f.woken.load(Ordering::SeqCst));
        if !any_woken {
            violation("C13", &format!("{free} slot(s) free, {pending} request(s) pending, none of them woken (stranded slot)"));
        }
        // a woken request polled while a slot is free gets the token
        for (fut, f) in &mut reqs {
            if f.woken.swap(false, Ordering::SeqCst) {
                let w = Waker::from(f.clone());
                let mut cx = Context::from_waker(&w);
                if fut.as_mut().poll(&mut cx).is_pending() {
                    violation("C13", "woken request polled while a slot is free did not get the token");
                }
                break;
            }
        }
    }
}

fn c14(ntokens: usize, droppers: usize) {
    let cfg = Config::with_conns(8.try_into().unwrap());
    let runner = cfg.async_runner();
    let tokens: Vec<Token> = (0..ntokens).map(|_| take_token(&runner)).collect();
    let mut fut = Box::pin(runner.shutdown());
    let begun = Arc::new(AtomicUsize::new(0));
    let mut per: Vec<Vec<Token>> = (0..droppers).map(|_| Vec::new()).collect();
    for (i, t) in tokens.into_iter().enumerate() { per[i % droppers].push(t); }
    let handles: Vec<_> = per.into_iter().map(|toks| {
        let b = begun.clone();
        std::thread::spawn(move || {
            for t in toks {
                b.fetch_add(1, Ordering::SeqCst);
                drop(t);
                std::thread::yield_now();
            }
        })
    }).collect();
    let flag = Arc::new(Flag { woken: AtomicBool::new(true), wakes: AtomicUsize::new(0) });
    let mut spins = 0u32;
    let mut ready = false;
    let mut joined = false;
    let mut handles = Some(handles);
    loop {
        if flag.woken.swap(false, Ordering::SeqCst) {
            let w = Waker::from(flag.clone());
            let mut cx = Context::from_waker(&w);
            if fut.as_mut().poll(&mut cx).is_ready() {
                if begun.load(Ordering::SeqCst) < ntokens { violation("C14", "shutdown future Ready before every token drop had begun"); }
                ready = true;
                break;
            }
        }
        if joined { break; }
        if handles.as_ref().map_or(false, |h| h.iter().all(|h| h.is_finished())) {
            for h in handles.take().unwrap() { h.join().unwrap(); }
            joined = true;
            continue; // one more look at the flag after all drops are done
        }
        spins += 1;
        if spins > 200_000 { violation("C14", "dropper threads never finished"); }
        std::thread::yield_now();
    }
    if let Some(h) = handles { for h in h { h.join().unwrap(); } }
    if !ready {
        violation("C14", "all tokens dropped but the shutdown future's task was not woken (lost wake-up)");
    }
}

fn main() {
    let args: Vec<String> = std::env::args().collect();
    match args.get(1).map(String::as_str) {
        Some("c13") => {
            c13(1, 1);
            c13(2, 2);
            c13(1, 2);
        }
        Some("c14") => {
            c14(1, 1);
            c14(2, 2);
            c14(3, 2);
        }
        _ => { eprintln!("usage: fcgimiri c13|c14"); std::process::exit(2); }
    }
    println!("ok");
}
