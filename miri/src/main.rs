//! Thread-interleaving scenarios run under Miri's seeded scheduler (-Zmiri-many-seeds).
//! Each seed is one exactly repeatable schedule (preemption points chosen by Miri's PRNG).
//!
//!   fcgimiri c13   one queued get_token while another thread drops the only token
//!   fcgimiri c14   shutdown future polled while other threads drop the tokens
use fastcgi_server::async_io::Token;
use fastcgi_server::Config;
use std::future::Future;
use std::pin::Pin;
use std::sync::atomic::{AtomicBool, AtomicUsize, Ordering};
use std::sync::Arc;
use std::task::{Context, Poll, Wake, Waker};

struct Flag {
    woken: AtomicBool,
    wakes: AtomicUsize,
}
impl Wake for Flag {
    fn wake(self: Arc<Self>) {
        self.wake_by_ref();
    }
    fn wake_by_ref(self: &Arc<Self>) {
        self.woken.store(true, Ordering::SeqCst);
        self.wakes.fetch_add(1, Ordering::SeqCst);
    }
}

/// A waker over `Flag` whose every callback (clone, wake, drop) ends in `yield_now()`: the library touches a
/// request's waker exactly at the instants that matter for lost wake-ups (registering, notifying, cancelling), so
/// these are the places where handing the processor to another thread is most revealing.
/// Directed interleaving: a thread spins on GATE, which opens when a waker of the armed request is released (a
/// queued request being cancelled or notified), and at the latest when the arming thread has finished its step.
static ARMED: AtomicUsize = AtomicUsize::new(0);
static ARMED_CLONE: AtomicUsize = AtomicUsize::new(0);
fn arm_clone(f: &Arc<Flag>) { GATE.store(false, Ordering::SeqCst); STEP_DONE.store(false, Ordering::SeqCst); ARMED_CLONE.store(Arc::as_ptr(f) as usize, Ordering::SeqCst); }
static GATE: AtomicBool = AtomicBool::new(false);
static STEP_DONE: AtomicBool = AtomicBool::new(false);
fn step_done() { STEP_DONE.store(true, Ordering::SeqCst); }
fn arm(f: &Arc<Flag>) { GATE.store(false, Ordering::SeqCst); STEP_DONE.store(false, Ordering::SeqCst); ARMED.store(Arc::as_ptr(f) as usize, Ordering::SeqCst); }
fn open_gate() { ARMED.store(0, Ordering::SeqCst); ARMED_CLONE.store(0, Ordering::SeqCst); GATE.store(true, Ordering::SeqCst); }
fn wait_gate() { while !GATE.load(Ordering::SeqCst) { std::thread::yield_now(); } }

fn yielding_waker(f: Arc<Flag>) -> Waker {
    use std::task::{RawWaker, RawWakerVTable};
    unsafe fn clone(p: *const ()) -> RawWaker {
        unsafe { Arc::increment_strong_count(p as *const Flag); }
        // (registration instant of an armed request: see drop_w)
        if ARMED_CLONE.load(Ordering::SeqCst) == p as usize {
            ARMED_CLONE.store(0, Ordering::SeqCst);
            GATE.store(true, Ordering::SeqCst);
            for _ in 0..200 { if STEP_DONE.load(Ordering::SeqCst) { break; } std::thread::yield_now(); }
        }
        std::thread::yield_now();
        RawWaker::new(p, &VT)
    }
    unsafe fn wake(p: *const ()) {
        let a = unsafe { Arc::from_raw(p as *const Flag) };
        a.woken.store(true, Ordering::SeqCst);
        a.wakes.fetch_add(1, Ordering::SeqCst);
        drop(a);
        std::thread::yield_now();
    }
    unsafe fn wake_by_ref(p: *const ()) {
        let a = unsafe { &*(p as *const Flag) };
        a.woken.store(true, Ordering::SeqCst);
        a.wakes.fetch_add(1, Ordering::SeqCst);
        std::thread::yield_now();
    }
    unsafe fn drop_w(p: *const ()) {
        unsafe { Arc::decrement_strong_count(p as *const Flag); }
        // the request whose waker is released here may be "armed": another thread waits for exactly this instant
        if ARMED.load(Ordering::SeqCst) == p as usize {
            ARMED.store(0, Ordering::SeqCst);
            GATE.store(true, Ordering::SeqCst);
            // give the gated thread time to perform its step (bounded: it may need a lock this thread still holds)
            for _ in 0..200 { if STEP_DONE.load(Ordering::SeqCst) { break; } std::thread::yield_now(); }
        }
        std::thread::yield_now();
    }
    static VT: RawWakerVTable = RawWakerVTable::new(clone, wake, wake_by_ref, drop_w);
    unsafe { Waker::from_raw(RawWaker::new(Arc::into_raw(f) as *const (), &VT)) }
}

fn violation(prop: &str, msg: &str) -> ! {
    eprintln!("MIRI-VIOLATION property={prop} {msg}");
    std::process::exit(1);
}

fn take_token(runner: &fastcgi_server::async_io::Runner) -> Token {
    let f = Arc::new(Flag { woken: AtomicBool::new(false), wakes: AtomicUsize::new(0) });
    let w = Waker::from(f);
    let mut cx = Context::from_waker(&w);
    let fut = runner.get_token();
    futures_util::pin_mut!(fut);
    match fut.poll(&mut cx) {
        Poll::Ready(t) => t,
        Poll::Pending => violation("C13", "a free slot was not granted at the first poll"),
    }
}

fn c13(limit: usize, waiters: usize) {
    c13_with(limit, waiters, false)
}

/// With `live` tokens alive, at most `limit - live` further requests may be served.
fn overshoot_check(runner: &fastcgi_server::async_io::Runner, limit: usize, live: usize) {
    let mut extra: Vec<Token> = Vec::new();
    for _ in 0..(limit - live + 1) {
        let f = Arc::new(Flag { woken: AtomicBool::new(false), wakes: AtomicUsize::new(0) });
        let w = Waker::from(f);
        let mut cx = Context::from_waker(&w);
        let fut = runner.get_token();
        futures_util::pin_mut!(fut);
        if let Poll::Ready(t) = fut.poll(&mut cx) { extra.push(t); }
    }
    if live + extra.len() > limit {
        violation("C13", &format!("{} connection tokens alive with a limit of {limit}", live + extra.len()));
    }
}

/// `cancel_first`: the oldest queued request is cancelled (dropped) on this thread while the other thread drops
/// the tokens - the freed slot must still reach one of the remaining requests.
fn c13_with(limit: usize, waiters: usize, cancel_first: bool) {
    let cfg = Config::with_conns(limit.try_into().unwrap());
    let runner = Arc::new(cfg.async_runner());
    let tokens: Vec<Token> = (0..limit).map(|_| take_token(&runner)).collect();
    // queued requests, each polled once to Pending
    let mut reqs: Vec<(Pin<Box<dyn Future<Output = Token>>>, Arc<Flag>)> = Vec::new();
    for _ in 0..waiters {
        let r = runner.clone();
        let fut: Pin<Box<dyn Future<Output = Token>>> = Box::pin(async move { r.get_token().await });
        let f = Arc::new(Flag { woken: AtomicBool::new(false), wakes: AtomicUsize::new(0) });
        reqs.push((fut, f));
    }
    for (fut, f) in &mut reqs {
        let w = yielding_waker(f.clone());
        let mut cx = Context::from_waker(&w);
        if fut.as_mut().poll(&mut cx).is_ready() {
            violation("C13", "token granted beyond the limit");
        }
    }
    let done = Arc::new(AtomicBool::new(false));
    let d2 = done.clone();
    if cancel_first { arm(&reqs[0].1); } else { open_gate(); }
    let dropper = std::thread::spawn(move || {
        // with a cancellation in flight: the first token is dropped at the instant the cancelled request lets go of its waker
        wait_gate();
        for t in tokens {
            drop(t);
            step_done();
            std::thread::yield_now();
        }
        d2.store(true, Ordering::SeqCst);
    });
    if cancel_first {
        std::thread::yield_now();
        drop(reqs.remove(0));
        open_gate();
    }
    // acquirer loop on this thread: poll a request whenever its waker fired
    let mut granted: Vec<Token> = Vec::new();
    let mut spins = 0u32;
    loop {
        let mut i = 0;
        while i < reqs.len() {
            if reqs[i].1.woken.swap(false, Ordering::SeqCst) {
                let w = yielding_waker(reqs[i].1.clone());
                let mut cx = Context::from_waker(&w);
                if let Poll::Ready(t) = reqs[i].0.as_mut().poll(&mut cx) {
                    granted.push(t);
                    if granted.len() > limit { violation("C13", "more live tokens than the limit"); }
                    reqs.remove(i);
                    continue;
                }
            }
            i += 1;
        }
        if done.load(Ordering::SeqCst) { break; }
        spins += 1;
        if spins > 200_000 { violation("C13", "dropper thread never finished"); }
        std::thread::yield_now();
    }
    dropper.join().unwrap();
    // all tokens were released: every slot not re-granted is free now
    let free = limit - granted.len();
    let pending = reqs.len();
    if free > 0 && pending > 0 {
        let any_woken = reqs.iter().any(|(_, f)| f.woken.load(Ordering::SeqCst));
        if !any_woken {
            violation("C13", &format!("{free} slot(s) free, {pending} request(s) pending, none of them woken (stranded slot)"));
        }
        // a woken request polled while a slot is free gets the token
        for (fut, f) in &mut reqs {
            if f.woken.swap(false, Ordering::SeqCst) {
                let w = Waker::from(f.clone());
                let mut cx = Context::from_waker(&w);
                if fut.as_mut().poll(&mut cx).is_pending() {
                    violation("C13", "woken request polled while a slot is free did not get the token");
                }
                break;
            }
        }
    }
    // the books must balance after the race: never more tokens than the limit
    if reqs.is_empty() { overshoot_check(&runner, limit, granted.len()); }
}

/// All slots taken, one request queued. This thread cancels it while another thread queues a new request; the
/// token dropped afterwards must reach the new request.
fn c13_cancel_vs_new(limit: usize) {
    let cfg = Config::with_conns(limit.try_into().unwrap());
    let runner = Arc::new(cfg.async_runner());
    let mut tokens: Vec<Token> = (0..limit).map(|_| take_token(&runner)).collect();
    let r1 = runner.clone();
    let mut req1: Pin<Box<dyn Future<Output = Token>>> = Box::pin(async move { r1.get_token().await });
    let f1 = Arc::new(Flag { woken: AtomicBool::new(false), wakes: AtomicUsize::new(0) });
    {
        let w = yielding_waker(f1.clone());
        let mut cx = Context::from_waker(&w);
        if req1.as_mut().poll(&mut cx).is_ready() { violation("C13", "token granted beyond the limit"); }
    }
    let r2 = runner.clone();
    let f2 = Arc::new(Flag { woken: AtomicBool::new(false), wakes: AtomicUsize::new(0) });
    let f2b = f2.clone();
    arm(&f1);
    let other = std::thread::spawn(move || {
        // queue the new request at the instant the cancelled one lets go of its waker
        wait_gate();
        let mut req2: Pin<Box<dyn Future<Output = Token> + Send>> = Box::pin(async move { r2.get_token().await });
        let w = yielding_waker(f2b);
        let mut cx = Context::from_waker(&w);
        let r = req2.as_mut().poll(&mut cx).is_ready();
        step_done();
        (req2, r)
    });
    drop(req1);
    open_gate();
    let (mut req2, ready) = other.join().unwrap();
    if ready { violation("C13", "token granted beyond the limit"); }
    // now free one slot: the pending request must be woken and served
    drop(tokens.pop());
    if !f2.woken.load(Ordering::SeqCst) {
        violation("C13", "1 slot free, 1 request pending (queued while another queued request was being cancelled), not woken (stranded slot)");
    }
    let w = yielding_waker(f2.clone());
    let mut cx = Context::from_waker(&w);
    if req2.as_mut().poll(&mut cx).is_pending() { violation("C13", "woken request polled while a slot is free did not get the token"); }
}

/// All slots taken. This thread polls a new request; at the instant the request's waker is cloned for
/// registration another thread drops a token. Afterwards the request is either served or has been woken.
fn c13_register_vs_release(limit: usize) {
    let cfg = Config::with_conns(limit.try_into().unwrap());
    let runner = Arc::new(cfg.async_runner());
    let mut tokens: Vec<Token> = (0..limit).map(|_| take_token(&runner)).collect();
    let victim = tokens.pop().unwrap();
    let r1 = runner.clone();
    let mut req: Pin<Box<dyn Future<Output = Token>>> = Box::pin(async move { r1.get_token().await });
    let f = Arc::new(Flag { woken: AtomicBool::new(false), wakes: AtomicUsize::new(0) });
    arm_clone(&f);
    let other = std::thread::spawn(move || {
        wait_gate();
        drop(victim);
        step_done();
    });
    let first = {
        let w = yielding_waker(f.clone());
        let mut cx = Context::from_waker(&w);
        req.as_mut().poll(&mut cx)
    };
    open_gate();
    other.join().unwrap();
    match first {
        Poll::Ready(t) => drop(t),
        Poll::Pending => {
            if !f.woken.load(Ordering::SeqCst) {
                violation("C13", "1 slot free, 1 request pending (it was registering while the slot was freed), not woken (stranded slot)");
            }
            let w = yielding_waker(f.clone());
            let mut cx = Context::from_waker(&w);
            if req.as_mut().poll(&mut cx).is_pending() { violation("C13", "woken request polled while a slot is free did not get the token"); }
        }
    }
    drop(tokens);
}

fn c14(ntokens: usize, droppers: usize) {
    // limit = number of tokens: when the shutdown future is Ready every token is gone, its slot included
    let cfg = Config::with_conns(ntokens.try_into().unwrap());
    let runner = cfg.async_runner();
    let clone = runner.clone();
    let tokens: Vec<Token> = (0..ntokens).map(|_| take_token(&runner)).collect();
    let mut fut = Box::pin(runner.shutdown());
    let begun = Arc::new(AtomicUsize::new(0));
    let mut per: Vec<Vec<Token>> = (0..droppers).map(|_| Vec::new()).collect();
    for (i, t) in tokens.into_iter().enumerate() { per[i % droppers].push(t); }
    let handles: Vec<_> = per.into_iter().map(|toks| {
        let b = begun.clone();
        std::thread::spawn(move || {
            for t in toks {
                b.fetch_add(1, Ordering::SeqCst);
                drop(t);
                std::thread::yield_now();
            }
        })
    }).collect();
    // every poll hands out a NEW waker identity: only the waker of the most recent poll counts
    // (Future::poll contract), as if the future were re-polled from another task each time
    let mut flag = Arc::new(Flag { woken: AtomicBool::new(true), wakes: AtomicUsize::new(0) });
    let mut spins = 0u32;
    let mut ready = false;
    let mut joined = false;
    let mut handles = Some(handles);
    let mut spurious_left = 1;
    loop {
        // one spurious re-poll (legal for any future) right after the first poll, with a new waker identity
        let spurious = spurious_left > 0 && flag.wakes.load(Ordering::SeqCst) == 0 && spins == 1;
        if spurious { spurious_left -= 1; }
        if flag.woken.swap(false, Ordering::SeqCst) || spurious {
            flag = Arc::new(Flag { woken: AtomicBool::new(false), wakes: AtomicUsize::new(0) });
            let w = yielding_waker(flag.clone());
            let mut cx = Context::from_waker(&w);
            if fut.as_mut().poll(&mut cx).is_ready() {
                if begun.load(Ordering::SeqCst) < ntokens { violation("C14", "shutdown future Ready before every token drop had begun"); }
                {
                    let f = Arc::new(Flag { woken: AtomicBool::new(false), wakes: AtomicUsize::new(0) });
                    let w = Waker::from(f);
                    let mut cx = Context::from_waker(&w);
                    let g = clone.get_token();
                    futures_util::pin_mut!(g);
                    if g.poll(&mut cx).is_pending() { violation("C14", "shutdown future Ready while a dropped token still occupies its connection slot"); }
                }
                ready = true;
                break;
            }
        }
        if joined { break; }
        if handles.as_ref().map_or(false, |h| h.iter().all(|h| h.is_finished())) {
            for h in handles.take().unwrap() { h.join().unwrap(); }
            joined = true;
            continue; // one more look at the flag after all drops are done
        }
        spins += 1;
        if spins > 200_000 { violation("C14", "dropper threads never finished"); }
        std::thread::yield_now();
    }
    if let Some(h) = handles { for h in h { h.join().unwrap(); } }
    if !ready {
        violation("C14", "all tokens dropped but the shutdown future's task was not woken (lost wake-up)");
    }
}

// ---------------------------------------------------------------- C10: writers on different threads

mod c10 {
    use super::*;
    use fastcgi_server::async_io::Request;
    use fastcgi_server::parser::request;
    use futures_util::io::{AsyncRead, AsyncWrite};
    use std::io;
    use std::sync::Mutex;

    /// Transport that accepts at most `max` bytes per call and appends them to a shared log.
    pub struct Sink { pub log: Arc<Mutex<Vec<u8>>>, pub max: usize, pub calls: usize }
    impl AsyncWrite for Sink {
        fn poll_write(mut self: Pin<&mut Self>, _: &mut Context<'_>, buf: &[u8]) -> Poll<io::Result<usize>> {
            let n = buf.len().min(self.max).max(1).min(buf.len());
            self.calls += 1;
            // the caller holds the output lock here: let the other threads run into it
            std::thread::yield_now();
            std::thread::yield_now();
            self.log.lock().unwrap().extend_from_slice(&buf[..n]);
            Poll::Ready(Ok(n))
        }
        fn poll_write_vectored(mut self: Pin<&mut Self>, _: &mut Context<'_>, bufs: &[io::IoSlice<'_>]) -> Poll<io::Result<usize>> {
            let total: usize = bufs.iter().map(|b| b.len()).sum();
            // cut positions vary with the call count: inside the header, at the seam, inside the payload
            let n = total.min(1 + (self.calls * 7) % self.max.max(1));
            self.calls += 1;
            std::thread::yield_now();
            std::thread::yield_now();
            let mut left = n;
            let mut log = self.log.lock().unwrap();
            for b in bufs {
                let k = left.min(b.len());
                log.extend_from_slice(&b[..k]);
                left -= k;
                if left == 0 { break; }
            }
            Poll::Ready(Ok(n))
        }
        fn poll_flush(self: Pin<&mut Self>, _: &mut Context<'_>) -> Poll<io::Result<()>> { Poll::Ready(Ok(())) }
        fn poll_close(self: Pin<&mut Self>, _: &mut Context<'_>) -> Poll<io::Result<()>> { Poll::Ready(Ok(())) }
    }
    pub struct NoInput;
    impl AsyncRead for NoInput {
        fn poll_read(self: Pin<&mut Self>, _: &mut Context<'_>, _: &mut [u8]) -> Poll<io::Result<usize>> { Poll::Pending }
    }

    /// Input of the request: one scripted chunk per read call (never Pending, end-of-file after the last one).
    pub struct Script { pub chunks: Vec<Vec<u8>>, pub next: usize }
    impl AsyncRead for Script {
        fn poll_read(mut self: Pin<&mut Self>, _: &mut Context<'_>, buf: &mut [u8]) -> Poll<io::Result<usize>> {
            if self.next >= self.chunks.len() { return Poll::Ready(Ok(0)); }
            let i = self.next;
            let n = self.chunks[i].len().min(buf.len());
            buf[..n].copy_from_slice(&self.chunks[i][..n]);
            if n == self.chunks[i].len() { self.next += 1; } else { self.chunks[i].drain(..n); }
            Poll::Ready(Ok(n))
        }
    }

    fn rec(t: u8, id: u16, body: &[u8]) -> Vec<u8> {
        let pad = (8 - body.len() % 8) % 8;
        let mut v = vec![1, t, (id >> 8) as u8, id as u8, (body.len() >> 8) as u8, body.len() as u8, pad as u8, 0];
        v.extend_from_slice(body);
        v.extend(std::iter::repeat(0).take(pad));
        v
    }

    /// Writers on their own threads while a further thread reads the request's input, which contains management
    /// queries: the request's reply flushing (poll_output) competes with the writers for the output lock.
    pub fn run_with_reader(nwriters: usize, per_writer: usize, queries: usize) {
        let cfg = Config::with_conns(1.try_into().unwrap());
        let wire: Vec<u8> = [&[1u8, 1, 0, 7, 0, 8, 0, 0, 0, 1, 0, 0, 0, 0, 0, 0][..], &[1, 4, 0, 7, 0, 0, 0, 0][..]].concat();
        let mut rp = request::Parser::new(&cfg);
        rp.input_buffer()[..wire.len()].copy_from_slice(&wire);
        assert!(rp.parse(wire.len()).done);
        let sp = rp.into_stream_parser().unwrap();
        // Stdin data and GetValues(FCGI_MPXS_CONNS) queries alternate, one record per transport read
        let mut chunks = Vec::new();
        let mut q = Vec::new();
        q.push(15u8); q.push(0); q.extend_from_slice(b"FCGI_MPXS_CONNS");
        for k in 0..queries {
            chunks.push(rec(5, 7, &[b'a' + k as u8; 5]));
            chunks.push(rec(9, 0, &q));
        }
        chunks.push(rec(5, 7, b"tail"));
        chunks.push(rec(5, 7, b""));
        let log = Arc::new(Mutex::new(Vec::new()));
        let mut req = Request::new(sp, Script { chunks, next: 0 }, Sink { log: log.clone(), max: 3, calls: 0 });
        let writers: Vec<_> = (0..nwriters).map(|wi| req.output_stream(if wi % 2 == 0 { fastcgi_server::protocol::RecordType::Stdout } else { fastcgi_server::protocol::RecordType::Stderr })).collect();
        let (req, got) = std::thread::scope(|sc| {
            for (wi, mut w) in writers.into_iter().enumerate() {
                sc.spawn(move || {
                    let park = Arc::new(Park { woken: AtomicBool::new(true), thread: std::thread::current(), polls: AtomicUsize::new(0) });
                    let waker = Waker::from(park.clone());
                    let mut cx = Context::from_waker(&waker);
                    for k in 0..per_writer {
                        let len = [1usize, 8, 13, 30][(wi + k) % 4];
                        let data: Vec<u8> = (0..len).map(|i| (wi as u8) << 6 | (k as u8) << 3 | (i as u8 & 7)).collect();
                        let mut off = 0;
                        while off < data.len() {
                            while !park.woken.swap(false, Ordering::SeqCst) { std::thread::park(); }
                            park.polls.fetch_add(1, Ordering::SeqCst);
                            match Pin::new(&mut w).poll_write(&mut cx, &data[off..]) {
                                Poll::Ready(Ok(n)) => { off += n; park.woken.store(true, Ordering::SeqCst); }
                                Poll::Ready(Err(e)) => violation("C10", &format!("write failed: {e}")),
                                Poll::Pending => {}
                            }
                        }
                    }
                    drop(w);
                });
            }
            let reader = sc.spawn(move || {
                let park = Arc::new(Park { woken: AtomicBool::new(true), thread: std::thread::current(), polls: AtomicUsize::new(0) });
                let waker = Waker::from(park.clone());
                let mut cx = Context::from_waker(&waker);
                let mut got = Vec::new();
                loop {
                    while !park.woken.swap(false, Ordering::SeqCst) { std::thread::park(); }
                    let mut buf = [0u8; 16];
                    match Pin::new(&mut req).poll_read(&mut cx, &mut buf) {
                        Poll::Ready(Ok(0)) => break,
                        Poll::Ready(Ok(n)) => { got.extend_from_slice(&buf[..n]); park.woken.store(true, Ordering::SeqCst); }
                        Poll::Ready(Err(e)) => violation("C10", &format!("read failed: {e}")),
                        Poll::Pending => {}
                    }
                }
                (req, got)
            });
            reader.join().unwrap()
        });
        let expect_in: Vec<u8> = (0..queries).flat_map(|k| vec![b'a' + k as u8; 5]).chain(b"tail".iter().copied()).collect();
        if got != expect_in { violation("C09", "reader thread received wrong stdin bytes"); }
        drop(req);
        // decode: complete records only; writer records homogeneous; replies whole
        let log = log.lock().unwrap();
        let mut p = 0;
        let mut replies = 0;
        let mut seen: Vec<Vec<usize>> = vec![Vec::new(); nwriters];
        while p < log.len() {
            if log.len() - p < 8 { violation("C10", "log ends inside a record header"); }
            let (ver, t, id, cl, pad) = (log[p], log[p + 1], u16::from_be_bytes([log[p + 2], log[p + 3]]), usize::from(u16::from_be_bytes([log[p + 4], log[p + 5]])), usize::from(log[p + 6]));
            if log.len() - p < 8 + cl + pad { violation("C10", "log ends inside a record"); }
            let body = &log[p + 8..p + 8 + cl];
            if ver == 1 && t == 10 && id == 0 {
                if body != b"\x0f\x01FCGI_MPXS_CONNS0" { violation("C10", &format!("GetValuesResult at {p} has a foreign body (records interleaved)")); }
                replies += 1;
            } else {
                if ver != 1 || id != 7 || !(t == 6 || t == 7) { violation("C10", &format!("malformed record header at {p}: version {ver} type {t} id {id} (records interleaved)")); }
                if pad >= 8 || (cl + pad) % 8 != 0 { violation("C10", "padding rule violated"); }
                let wi = usize::from(body[0] >> 6);
                let k = usize::from((body[0] >> 3) & 7);
                if wi >= nwriters || (t == 6) != (wi % 2 == 0) { violation("C10", "record type does not match its writer"); }
                for (i, b) in body.iter().enumerate() {
                    if *b != ((wi as u8) << 6 | (k as u8) << 3 | (i as u8 & 7)) { violation("C10", &format!("record payload mixes bytes of different writes at {}", p + 8 + i)); }
                }
                if cl != [1usize, 8, 13, 30][(wi + k) % 4] { violation("C10", "record length differs from the write"); }
                seen[wi].push(k);
            }
            p += 8 + cl + pad;
        }
        if replies != queries { violation("C10", &format!("{replies} GetValuesResult records for {queries} queries")); }
        for (wi, ks) in seen.iter().enumerate() {
            if *ks != (0..per_writer).collect::<Vec<_>>() { violation("C10", &format!("writer {wi}: records {ks:?} (order or count wrong)")); }
        }
    }

    /// `polls` counts the polls the owning thread has started: a thread that wakes this one (typically by releasing
    /// the output lock) waits - bounded - until the woken thread has begun its next poll, so that "woken thread runs
    /// before the waker's next statement" is a common schedule instead of a rare one.
    struct Park { woken: AtomicBool, thread: std::thread::Thread, polls: AtomicUsize }
    impl Wake for Park {
        fn wake(self: Arc<Self>) { self.wake_by_ref(); }
        fn wake_by_ref(self: &Arc<Self>) {
            let p0 = self.polls.load(Ordering::SeqCst);
            self.woken.store(true, Ordering::SeqCst);
            self.thread.unpark();
            if std::thread::current().id() != self.thread.id() {
                for _ in 0..80 { if self.polls.load(Ordering::SeqCst) != p0 { break; } std::thread::yield_now(); }
                std::thread::yield_now();
            }
        }
    }

    pub fn run(nwriters: usize, per_writer: usize) {
        let cfg = Config::with_conns(1.try_into().unwrap());
        // BeginRequest(id 7, Responder) + empty Params
        let wire: Vec<u8> = [&[1u8, 1, 0, 7, 0, 8, 0, 0, 0, 1, 0, 0, 0, 0, 0, 0][..], &[1, 4, 0, 7, 0, 0, 0, 0][..]].concat();
        let mut rp = request::Parser::new(&cfg);
        rp.input_buffer()[..wire.len()].copy_from_slice(&wire);
        assert!(rp.parse(wire.len()).done);
        let sp = rp.into_stream_parser().unwrap();
        let log = Arc::new(Mutex::new(Vec::new()));
        let req = Request::new(sp, NoInput, Sink { log: log.clone(), max: 11, calls: 0 });
        let mut handles = Vec::new();
        for wi in 0..nwriters {
            let mut w = req.output_stream(if wi % 2 == 0 { fastcgi_server::protocol::RecordType::Stdout } else { fastcgi_server::protocol::RecordType::Stderr });
            handles.push(std::thread::spawn(move || {
                let park = Arc::new(Park { woken: AtomicBool::new(true), thread: std::thread::current(), polls: AtomicUsize::new(0) });
                let waker = Waker::from(park.clone());
                let mut cx = Context::from_waker(&waker);
                for k in 0..per_writer {
                    let len = [1usize, 8, 13, 30][(wi + k) % 4];
                    let data: Vec<u8> = (0..len).map(|i| (wi as u8) << 6 | (k as u8) << 3 | (i as u8 & 7)).collect();
                    let mut off = 0;
                    while off < data.len() {
                        // strict: poll only when woken
                        while !park.woken.swap(false, Ordering::SeqCst) { std::thread::park(); }
                        park.polls.fetch_add(1, Ordering::SeqCst);
                        match Pin::new(&mut w).poll_write(&mut cx, &data[off..]) {
                            Poll::Ready(Ok(n)) => { off += n; park.woken.store(true, Ordering::SeqCst); }
                            Poll::Ready(Err(e)) => violation("C10", &format!("write failed: {e}")),
                            Poll::Pending => {}
                        }
                    }
                }
                drop(w);
            }));
        }
        for h in handles { h.join().unwrap(); }
        drop(req);
        // decode: complete records only, each payload homogeneous in (writer, call) and with the right type and padding
        let log = log.lock().unwrap();
        let mut p = 0;
        let mut seen: Vec<Vec<usize>> = vec![Vec::new(); nwriters];
        while p < log.len() {
            if log.len() - p < 8 { violation("C10", "log ends inside a record header"); }
            let (ver, t, id, cl, pad) = (log[p], log[p + 1], u16::from_be_bytes([log[p + 2], log[p + 3]]), usize::from(u16::from_be_bytes([log[p + 4], log[p + 5]])), usize::from(log[p + 6]));
            if ver != 1 || id != 7 || !(t == 6 || t == 7) { violation("C10", &format!("malformed record header at {p}: version {ver} type {t} id {id}")); }
            if pad >= 8 || (cl + pad) % 8 != 0 { violation("C10", "padding rule violated"); }
            if log.len() - p < 8 + cl + pad { violation("C10", "log ends inside a record"); }
            let body = &log[p + 8..p + 8 + cl];
            let wi = usize::from(body[0] >> 6);
            let k = usize::from((body[0] >> 3) & 7);
            if wi >= nwriters || (t == 6) != (wi % 2 == 0) { violation("C10", "record type does not match its writer"); }
            for (i, b) in body.iter().enumerate() {
                if *b != ((wi as u8) << 6 | (k as u8) << 3 | (i as u8 & 7)) { violation("C10", &format!("record payload mixes bytes of different writes at {}", p + 8 + i)); }
            }
            let expect_len = [1usize, 8, 13, 30][(wi + k) % 4];
            if cl != expect_len { violation("C10", &format!("record of writer {wi} call {k} carries {cl} bytes, written {expect_len}")); }
            seen[wi].push(k);
            p += 8 + cl + pad;
        }
        for (wi, ks) in seen.iter().enumerate() {
            if *ks != (0..per_writer).collect::<Vec<_>>() { violation("C10", &format!("writer {wi}: records {ks:?} (order or count wrong)")); }
        }
    }
}

fn main() {
    let args: Vec<String> = std::env::args().collect();
    match args.get(1).map(String::as_str) {
        Some("c13") => {
            c13(1, 1);
            c13(2, 2);
            c13(1, 2);
            c13_with(1, 2, true);
            c13_with(2, 3, true);
            c13_with(2, 1, true);
            c13_cancel_vs_new(1);
            c13_cancel_vs_new(2);
            c13_register_vs_release(1);
            c13_register_vs_release(2);
        }
        Some("c13m") => { c13_cancel_vs_new(1); }
        Some("c14") => {
            c14(1, 1);
            c14(2, 2);
            c14(3, 2);
        }
        Some("c10") => {
            c10::run(2, 2);
            c10::run_with_reader(3, 3, 5);
        }
        _ => { eprintln!("usage: fcgimiri c10|c13|c14"); std::process::exit(2); }
    }
    println!("ok");
}
