//! D2 scenarios: one connection task `Token::run` over the simulated transport with a
//! scripted peer and scripted handlers. Serves C07, C08, C09, C10, C11 (async), C12, C14 (connection side).

use crate::core::*;
use crate::d1req::{config, preamble_records};
use crate::d1stream::stream_records;
use crate::exec::*;
use crate::gen::*;
use crate::model::{self, PreOutcome, ReqInfo, Reply, StreamModel};
use crate::wire::{self, *};
use crate::{vcheck, vfail};
use fastcgi_server::async_io::{Request, Runner, StreamWriter};
use fastcgi_server::protocol::RecordType;
use fastcgi_server::ExitStatus;
use futures_util::future::BoxFuture;
use futures_util::io::{AsyncBufRead, AsyncRead, AsyncWrite};
use std::future::{poll_fn, Future};
use std::io;
use std::pin::Pin;

pub type Req<'a> = Request<'a, SimRead, SimWrite>;

#[derive(Debug, Clone, Default)]
pub struct Invocation {
    pub req_id: u16,
    pub role: u16,
    pub flags: u8,
    pub env: Vec<(String, Vec<u8>)>,
    /// Bytes received per role stream index.
    pub read: Vec<Vec<u8>>,
    /// End-of-file observations per stream index (Ok(0) on a non-empty buffer / empty fill_buf).
    pub eof: Vec<bool>,
    /// (error kind, operation, input bytes read by the library at that time) for every I/O error the handler observed.
    pub errors: Vec<(String, String, usize)>,
    /// Completed writes in completion order: (stream type, data, returned count).
    pub writes: Vec<(u8, Vec<u8>, usize)>,
    pub status: Option<String>,
    pub started_after_shutdown: bool,
    pub log_len_at_start: usize,
    pub read_pos_at_start: usize,
    /// Input bytes the library had read when the handler returned.
    pub read_pos_at_end: usize,
    pub finished: bool,
    /// Violations detected inside the handler (reported after the run).
    pub violation: Option<Violation>,
    /// is_writeable() samples: (value, active stream index or 99, input bytes read by the library at that moment)
    pub writeable_samples: Vec<(bool, usize, usize)>,
    /// Reads issued while no stream is active (roles without input streams): (input bytes read by the library
    /// after the call, outcome: 0 = Ok(0), 1 = ConnectionAborted, 2 = anything else).
    pub idle_reads: Vec<(usize, u8)>,
    pub eof_then_data: bool,
}

#[derive(Clone, Copy, Debug, PartialEq, Eq)]
pub enum HandlerMode {
    /// Sequential family for C07/C08/C11/C12/C14.
    Seq,
    /// Read-interface exploration for C09.
    Readers,
    /// Concurrent writers for C10.
    Writers,
}

#[derive(Clone, Debug)]
pub struct ReqPlan {
    pub id: u16,
    pub role: u16,
    pub flags: u8,
    pub start: usize,
    pub end: usize,
    pub info: ReqInfo,
    pub sm: StreamModel,
    pub has_abort: bool,
}

pub struct Plan {
    pub wire: Vec<u8>,
    pub segs: Vec<Seg>,
    pub reqs: Vec<ReqPlan>,
    pub replies: Vec<Reply>,
    pub bufsize: usize,
    pub max_conns: usize,
    pub desc: String,
}

pub struct PlanOpts {
    pub max_reqs: usize,
    pub noise: u32,
    pub closed_loop: bool,
    pub abort: bool,
    pub small_buf_bias: bool,
    pub force_keep: bool,
    /// Only position-independent noise everywhere (no END-type replies), open- or closed-loop gating.
    pub either_noise: bool,
    /// The client sends every request right behind the previous one without waiting for its EndRequest.
    pub pipelined: bool,
    /// Closed-loop variant: records may follow a query in the same burst; the peer then waits for all replies
    /// owed so far before it sends the next burst.
    pub burst: bool,
}

fn reply_is_end(r: &Reply) -> bool {
    r.bytes.len() >= 2 && r.bytes[1] == END
}

/// Builds a compliant client script of 1..k requests with position-independent noise after the
/// preamble and phase-specific noise where the consuming parser is known.
pub fn gen_plan(cx: &mut Ctx, o: &PlanOpts) -> Plan {
    // max_reqs >= 100: a very long keep-alive connection of small requests (per-connection counters, ids, buffers that creep)
    let tiny = o.max_reqs >= 100;
    let k = if tiny { cx.probe("connection_of_260plus_requests"); cx.ch.range(260, o.max_reqs) } else if o.max_reqs > 4 { cx.probe("long_lived_connection"); cx.ch.range(5, o.max_reqs) } else { 1 + cx.ch.weighted(&[3, 3, 2, 1]).min(o.max_reqs - 1) };
    let max_conns = cx.ch.one_of(&[1usize, 2, 10, 100]);
    // buffer size first: the 24-byte minimum needs pairs of at most 11 bytes
    let bufsize = if o.small_buf_bias {
        match cx.ch.weighted(&[4, 3, 2, 1]) { 0 => 24, 1 => cx.ch.range(24, 120), 2 => cx.ch.one_of(&[4096usize, 8192]), _ => cx.ch.range(120, 70000) }
    } else {
        match cx.ch.weighted(&[2, 3, 3, 1]) { 0 => 24, 1 => cx.ch.range(24, 200), 2 => cx.ch.one_of(&[4096usize, 8192]), _ => cx.ch.range(200, 70000) }
    };
    let mut all: Vec<Rec> = Vec::new();
    let mut bounds = Vec::new();
    let mut metas = Vec::new();
    let mut burst_plan = false;
    let mut burst_range = 0..0usize;
    let pair_cap = effective(bufsize).saturating_sub(13).min(40);
    for i in 0..k {
        let id = gen_id(cx);
        let role = gen_role(cx);
        let last = i + 1 == k;
        let keep = if last { o.force_keep || cx.ch.chance(1, 2) } else { true };
        let mut flags = if cx.ch.chance(1, 3) { cx.ch.byte() & 0xfe } else { 0 };
        if keep { flags |= 1; }
        let mut pairs = gen_pairs(cx, if tiny { 1 } else { 4 }, pair_cap, false);
        // scale: with an ordinary buffer, sometimes a large environment (100..400 small variables, several times the
        // buffer) that contains one pair close to the documented bound
        if !tiny && bufsize >= 4096 && cx.ch.chance(1, 40) {
            let n = cx.ch.range(100, 400);
            pairs = (0..n).map(|j| (format!("HTTP_X_VAR_{j}").into_bytes(), gen_bytes(cx, (j * 7) % 23))).collect();
            let big = cx.ch.range(1100, (effective(bufsize) - 13).min(6000));
            let at = cx.ch.range(0, pairs.len());
            let val = gen_bytes(cx, big - 10);
            pairs.insert(at, (b"HTTP_X_BIG".to_vec(), val));
            cx.probe("environment_larger_than_buffer");
        }
        let start = all.len();
        let mut recs = Vec::new();
        let noise = if tiny { if cx.ch.chance(1, 20) { 1 } else { 0 } } else { o.noise };
        if o.abort && cx.ch.chance(1, 3) {
            // an attempt aborted during its Params stream: answered at once, no handler invocation
            let aid = if cx.ch.chance(1, 2) { id } else { gen_id(cx) };
            let apairs = gen_pairs(cx, 3, pair_cap, false);
            let mut tmp = Vec::new();
            let (arole, aflags) = (gen_role(cx), cx.ch.byte());
            preamble_records(cx, &mut tmp, aid, arole, aflags, &apairs, 0, 24, false);
            tmp.pop();
            let keep_n = cx.ch.range(1, tmp.len());
            tmp.truncate(keep_n);
            recs.extend(tmp);
            let pad = gen_padding(cx);
            recs.push(Rec::new(ABORT, aid, Vec::new(), pad));
            cx.probe("abort_during_params_async");
        }
        if o.closed_loop || o.either_noise {
            // only GetValues / unknown-type / skipped noise, at every phase
            closed_loop_noise(cx, &mut recs, id, noise);
            let pad = gen_padding(cx);
            recs.push(begin(id, role, flags, pad));
            let (payload, ends) = encode_pairs(cx, &pairs, true);
            for c in cut_payload(cx, &payload, &ends) {
                let pad = gen_padding(cx);
                recs.push(Rec::new(PARAMS, id, c, pad));
                closed_loop_noise(cx, &mut recs, id, noise);
            }
            let pad = gen_padding(cx);
            recs.push(Rec::new(PARAMS, id, Vec::new(), pad));
            closed_loop_noise(cx, &mut recs, id, noise);
        } else {
            preamble_records(cx, &mut recs, id, role, flags, &pairs, noise, 24, true);
        }
        let mut srecs = Vec::new();
        crate::d1stream::stream_records_opts(cx, &mut srecs, id, role, noise, 24, true, Phase::Either, !tiny && k <= 4);
        let mut has_abort = false;
        if o.abort && cx.ch.chance(2, 3) {
            let at = cx.ch.range(0, srecs.len());
            let bl = if cx.ch.chance(1, 3) { cx.ch.range(1, 12) } else { 0 };
            let body = gen_bytes(cx, bl);
            let pad = gen_padding(cx);
            srecs.insert(at, Rec::new(ABORT, id, body, pad));
            if cx.ch.chance(1, 3) {
                let fid = gen_other_id(cx, id, true);
                srecs.insert(at, Rec::new(ABORT, fid, Vec::new(), 0));
                cx.probe("foreign_abort_inserted");
            }
            has_abort = true;
        }
        // scale: rarely a burst of 1100..3000 unknown-type records in the middle of the stream phase, on a connection
        // whose buffer holds the whole burst (forced below)
        // (closed-loop burst plans: 257..1500 of them, sent as one burst - see the segments below)
        let one_burst = o.closed_loop && o.burst;
        if (o.either_noise || !o.closed_loop || one_burst) && !tiny && !burst_plan && !srecs.is_empty() && cx.ch.chance(1, if one_burst { 60 } else { 150 }) {
            let n = if one_burst { cx.ch.one_of(&[257usize, 258, 300, 700, 1500]) } else { cx.ch.range(1100, 3000) };
            let at = cx.ch.range(0, srecs.len());
            let t = cx.ch.one_of(&[0u8, 12, 13, 127, 255]);
            let b: Vec<Rec> = (0..n).map(|_| Rec::new(t, 0, Vec::new(), 0)).collect();
            srecs.splice(at..at, b);
            burst_plan = true;
            if one_burst { let g = all.len() + recs.len() + at; burst_range = g..g + n; }
            cx.probe(if one_burst { "closed_loop_burst_over_256_records" } else { "burst_of_1100plus_reply_records" });
        }
        recs.extend(srecs);
        junk_reserved(cx, &mut recs);
        all.extend(recs);
        bounds.push((start, all.len()));
        metas.push((id, role, flags, has_abort));
    }
    // byte offsets
    let mut offs = vec![0usize];
    let mut wire = Vec::new();
    let mut rec_off = Vec::new();
    for (i, r) in all.iter().enumerate() {
        rec_off.push(wire.len());
        r.encode(&mut wire);
        if bounds.iter().any(|b| b.1 == i + 1) { offs.push(wire.len()); }
    }
    // models per request
    let mut reqs = Vec::new();
    let mut replies: Vec<Reply> = Vec::new();
    for i in 0..k {
        let (s, e) = (offs[i], offs[i + 1]);
        let w = &wire[..e];
        let pm = model::preamble(w, s, max_conns);
        let PreOutcome::Done(info) = pm.outcome.clone() else { panic!("harness: plan preamble {i} incomplete") };
        assert!(info.id == metas[i].0, "harness: plan id");
        let sm = model::stream(w, info.end, info.id, info.role, max_conns);
        replies.extend(pm.replies.iter().cloned());
        // stream-phase replies: all of them are owed by whichever parser consumes the record (position independent)
        replies.extend(sm.replies.iter().cloned());
        // records behind an abort are consumed by the next request parser: the stream model stops there, so
        // continue with a preamble-idle model for the rest (which skips stale records and answers noise)
        if let Some(a) = sm.abort {
            let tail = model::preamble(w, a, max_conns);
            replies.extend(tail.replies.iter().cloned());
        }
        reqs.push(ReqPlan { id: info.id, role: info.role, flags: info.flags, start: s, end: e, info, sm, has_abort: metas[i].3 });
    }
    replies.sort_by_key(|r| r.rec_start);
    replies.dedup_by_key(|r| r.rec_start);
    // segments
    let mut segs = Vec::new();
    if o.closed_loop {
        // whole records; after each reply-owing record everything further is withheld until the
        // complete reply has been observed; request i+1 additionally waits for EndRequest i
        let mut gated = 0usize;
        for (i, r) in all.iter().enumerate() {
            let off = rec_off[i];
            let end = off + r.len();
            let req_idx = bounds.iter().position(|b| i >= b.0 && i < b.1).expect("bounds");
            let first_of_req = bounds[req_idx].0 == i;
            let need = replies_before(&replies, off);
            if first_of_req && req_idx > 0 {
                if need > gated {
                    segs.push(Seg { end: off, gate: Gate::AfterReplies(need) });
                    gated = need;
                }
                segs.push(Seg { end, gate: Gate::AfterEndRequests(req_idx) });
            } else if burst_range.contains(&i) && i > burst_range.start {
                // the large burst arrives as one burst
                segs.last_mut().expect("seg").end = end;
            } else if need > gated && !(o.burst && cx.ch.chance(1, 2)) {
                segs.push(Seg { end, gate: Gate::AfterReplies(need) });
                gated = need;
            } else if !segs.is_empty() && cx.ch.chance(1, 2) {
                // same burst as the previous record
                segs.last_mut().expect("seg").end = end;
            } else {
                segs.push(Seg { end, gate: Gate::Open });
            }
        }
    } else {
        for i in 0..k {
            // END-type replies owed before this request's segment count towards the threshold
            let noise_ends = replies.iter().filter(|r| r.rec_start < offs[i] && reply_is_end(r)).count();
            let gate = if i == 0 || o.pipelined { Gate::Open } else { Gate::AfterEndRequests(i + noise_ends) };
            // optionally split the request's bytes into a few open segments (arrival bursts)
            let (s, e) = (offs[i], offs[i + 1]);
            let mut cuts = vec![e];
            for _ in 0..cx.ch.pick(3) {
                cuts.push(cx.ch.range(s, e));
            }
            cuts.sort();
            cuts.dedup();
            let mut first = true;
            for c in cuts {
                if c == s && !first { continue; }
                segs.push(Seg { end: c, gate: if first { gate } else { Gate::Open } });
                first = false;
            }
        }
    }
    let bufsize = if all.iter().any(|r| r.content.len() + usize::from(r.padding) > 65535 || r.content.len() == 65535) && cx.ch.chance(1, 2) {
        // a buffer that can hold a maximum-size record whole (stale records skipped by the next request parser)
        cx.probe("buffer_holds_whole_huge_record");
        cx.ch.one_of(&[70000usize, 131072])
    } else if burst_plan { cx.ch.one_of(&[65536usize, 131072, 1 << 20]) } else if wire.len() > 300_000 { bufsize.max(cx.ch.one_of(&[4096usize, 8192, 70000])) } else { bufsize };
    let desc = {
        let recs: Vec<String> = all.iter().take(36).map(Rec::short).collect();
        format!("k={k} bufsize={bufsize} max_conns={max_conns} closed_loop={} segs={:?} records=[{}]", o.closed_loop,
            segs.iter().map(|s| (s.end, s.gate)).collect::<Vec<_>>(), recs.join(" "))
    };
    Plan { wire, segs, reqs, replies, bufsize, max_conns, desc }
}

fn replies_before(replies: &[Reply], off: usize) -> usize {
    replies.iter().filter(|r| r.rec_start < off && !reply_is_end(r)).count()
}

fn closed_loop_noise(cx: &mut Ctx, out: &mut Vec<Rec>, id: u16, noise: u32) {
    while cx.ch.chance(noise, 10) {
        let r = gen_noise(cx, Phase::Either, id, 24);
        out.push(r);
    }
}

// ------------------------------------------------------------------ handler interpreter

fn kind_name(e: &io::Error) -> String {
    format!("{:?}", e.kind())
}

struct HState {
    /// Set once the handler received data or end-of-file of the role's final stream: from then on the
    /// request must report itself writeable.
    final_reached: bool,
    world: Shared,
    idx: usize,
    mode: HandlerMode,
    active: Option<usize>,
    streams: &'static [u8],
    propagate: bool,
    /// A read was polled once and dropped while Pending (the request may still hold the output lock).
    abandoned: bool,
}

impl HState {
    fn with<R>(&self, f: impl FnOnce(&mut World, &mut Invocation) -> R) -> R {
        let mut w = lock(&self.world);
        let mut inv = std::mem::take(&mut w.handler_log[self.idx]);
        let r = f(&mut w, &mut inv);
        w.handler_log[self.idx] = inv;
        r
    }
    fn pick(&self, n: u32) -> u32 {
        lock(&self.world).cx.ch.pick(n)
    }
    fn weighted(&self, ws: &[u32]) -> usize {
        lock(&self.world).cx.ch.weighted(ws)
    }
    fn range(&self, lo: usize, hi: usize) -> usize {
        lock(&self.world).cx.ch.range(lo, hi)
    }
    fn chance(&self, a: u32, b: u32) -> bool {
        lock(&self.world).cx.ch.chance(a, b)
    }
    fn ev(&self, k: &'static str, a: u64, b: u64) {
        lock(&self.world).cx.ev(k, a, b);
    }
    fn probe(&self, k: &'static str) {
        lock(&self.world).cx.probe(k);
    }
    fn fail(&self, v: Violation) {
        self.with(|_, inv| { if inv.violation.is_none() { inv.violation = Some(v); } });
    }
    fn sample_writeable(&self, req: &Req<'_>) {
        let v = req.is_writeable();
        if self.final_reached && !v {
            self.fail(Violation::new("c09_writeable_late", "", "data or end-of-file of the final input stream was delivered but is_writeable() is false".into()));
        }
        let a = self.active.unwrap_or(99);
        self.with(|w, inv| {
            // consecutive identical samples add nothing
            let rp = w.read_pos;
            if inv.writeable_samples.last().map_or(true, |l| l.0 != v || l.1 != a) { inv.writeable_samples.push((v, a, rp)); }
        });
    }
    fn record_read(&mut self, n: usize, data: &[u8], buf_len: usize) {
        if let Some(i) = self.active {
            if i + 1 == self.streams.len() && (n > 0 || buf_len > 0) { self.final_reached = true; }
            self.with(|_, inv| {
                if n == 0 && buf_len > 0 {
                    inv.eof[i] = true;
                } else {
                    if inv.eof[i] && n > 0 { inv.eof_then_data = true; }
                    inv.read[i].extend_from_slice(&data[..n]);
                }
            });
        } else if n > 0 {
            self.fail(Violation::new("c09_no_active_stream_data", "", format!("read returned {n} bytes while no stream is active")));
        }
    }
}

async fn h_read(req: &mut Req<'_>, st: &mut HState, len: usize) -> io::Result<usize> {
    h_read_hook(req, st, len, &mut |_, _| false).await
}

/// `hook` runs before every poll of the read (between two polls of one pending read the handler may use `&Request`
/// methods, e.g. create an output writer and hand it to another sub-task).
async fn h_read_hook(req: &mut Req<'_>, st: &mut HState, len: usize, hook: &mut (dyn FnMut(&mut Req<'_>, &mut HState) -> bool + Send)) -> io::Result<usize> {
    let mut buf = vec![0u8; len];
    st.ev("h_read", len as u64, 0);
    let r = poll_fn(|cx| {
        if hook(&mut *req, &mut *st) {
            // the hook did something other sub-tasks should get a chance to react to before this read goes on
            cx.waker().wake_by_ref();
            return std::task::Poll::Pending;
        }
        let p = Pin::new(&mut *req).poll_read(cx, &mut buf);
        if p.is_pending() { st.sample_writeable(req); }
        p
    }).await;
    match &r {
        Ok(n) => {
            if *n > len {
                st.fail(Violation::new("c09_read_count", "", format!("poll_read returned {n} for a {len}-byte buffer")));
                return r;
            }
            st.record_read(*n, &buf, len);
            st.ev("h_read_ok", *n as u64, 0);
        }
        Err(e) => {
            let k = kind_name(e);
            st.with(|w, inv| inv.errors.push((k, "read".into(), w.read_pos)));
            st.ev("h_read_err", 0, 0);
        }
    }
    st.sample_writeable(req);
    r
}

/// poll_read_vectored with 2..3 buffers: bytes are reported in buffer order, exactly the returned count.
async fn h_readv(req: &mut Req<'_>, st: &mut HState) -> io::Result<usize> {
    let lens = [st.range(1, 8), st.range(1, 8), st.range(0, 16)];
    let mut b0 = vec![0u8; lens[0]];
    let mut b1 = vec![0u8; lens[1]];
    let mut b2 = vec![0u8; lens[2]];
    st.ev("h_readv", (lens[0] + lens[1] + lens[2]) as u64, 0);
    let r = poll_fn(|cx| {
        let mut bufs = [io::IoSliceMut::new(&mut b0), io::IoSliceMut::new(&mut b1), io::IoSliceMut::new(&mut b2)];
        let p = Pin::new(&mut *req).poll_read_vectored(cx, &mut bufs);
        if p.is_pending() { st.sample_writeable(req); }
        p
    }).await;
    match &r {
        Ok(n) => {
            let total = lens[0] + lens[1] + lens[2];
            if *n > total {
                st.fail(Violation::new("c09_read_count", "", format!("poll_read_vectored returned {n} for {total} bytes of buffers")));
                return r;
            }
            let mut all = b0.clone();
            all.extend_from_slice(&b1);
            all.extend_from_slice(&b2);
            st.record_read(*n, &all, total);
            st.probe("vectored_read");
        }
        Err(e) => {
            let k = kind_name(e);
            st.with(|w, inv| inv.errors.push((k, "read_vectored".into(), w.read_pos)));
        }
    }
    st.sample_writeable(req);
    r
}

async fn h_fill(req: &mut Req<'_>, st: &mut HState) -> io::Result<usize> {
    st.ev("h_fill", 0, 0);
    let r = poll_fn(|cx| {
        let p = match Pin::new(&mut *req).poll_fill_buf(cx) {
            std::task::Poll::Ready(Ok(b)) => std::task::Poll::Ready(Ok(b.to_vec())),
            std::task::Poll::Ready(Err(e)) => std::task::Poll::Ready(Err(e)),
            std::task::Poll::Pending => std::task::Poll::Pending,
        };
        if p.is_pending() { st.sample_writeable(req); }
        p
    }).await;
    match r {
        Ok(b) => {
            let take = if b.is_empty() { 0 } else if st.chance(1, 2) { b.len() } else { st.range(0, b.len()) };
            if b.is_empty() {
                st.record_read(0, &[], 1);
            } else if take > 0 {
                st.record_read(take, &b, b.len());
            }
            Pin::new(&mut *req).consume(take);
            st.ev("h_fill_ok", b.len() as u64, take as u64);
            st.sample_writeable(req);
            Ok(if b.is_empty() { 0 } else { take.max(1) })
        }
        Err(e) => {
            let k = kind_name(&e);
            st.with(|w, inv| inv.errors.push((k, "fill_buf".into(), w.read_pos)));
            st.sample_writeable(req);
            Err(e)
        }
    }
}

async fn h_write(w: &mut StreamWriter<SimWrite>, st_world: &Shared, idx: usize, data: Vec<u8>, flush: bool) -> io::Result<()> {
    let stream = u8::from(w.stream());
    let mut off = 0;
    // like write_all: each call may accept at most 65535 bytes
    let mut carry: Option<usize> = None; // announced length of a record whose write failed and is being retried
    loop {
        let chunk = &data[off..];
        // sometimes the first poll offers only a prefix and later polls a longer buffer (a write that was
        // abandoned while Pending and retried with more data): the record announced by the first poll must
        // still carry exactly its bytes
        let first_len = match carry {
            Some(l) => l,
            None => { let mut wl = lock(st_world); if chunk.len() > 1 && wl.cx.ch.chance(1, 5) { let l = wl.cx.ch.range(1, chunk.len() - 1); wl.cx.probe("write_repolled_with_longer_buffer"); l } else { chunk.len() } }
        };
        // the rarely used route: a gathered write of the same bytes cut into 2..4 slices (some possibly empty); it
        // may accept any non-empty prefix of them
        let cuts: Option<Vec<usize>> = if carry.is_none() && first_len == chunk.len() && chunk.len() >= 2 {
            let mut wl = lock(st_world);
            if wl.cx.ch.chance(1, 6) {
                let k = 1 + wl.cx.ch.pick(3) as usize;
                let mut c: Vec<usize> = (0..k).map(|_| wl.cx.ch.range(0, chunk.len())).collect();
                c.sort();
                wl.cx.probe("handler_write_vectored");
                Some(c)
            } else { None }
        } else { None };
        // a retried write continues the record set up before: it must not offer a shorter buffer
        let mut polls = if carry.is_some() { 1u32 } else { 0u32 };
        let vectored = cuts.is_some();
        let r = poll_fn(|cx| {
            if let Some(c) = &cuts {
                let mut slices: Vec<io::IoSlice<'_>> = Vec::new();
                let mut a = 0usize;
                for &b in c { slices.push(io::IoSlice::new(&chunk[a..b])); a = b; }
                slices.push(io::IoSlice::new(&chunk[a..]));
                polls += 1;
                return Pin::new(&mut *w).poll_write_vectored(cx, &slices);
            }
            let b = if polls == 0 { &chunk[..first_len] } else { chunk };
            polls += 1;
            Pin::new(&mut *w).poll_write(cx, b)
        }).await;
        match r {
            Ok(n) => {
                carry = None;
                let mut wl = lock(st_world);
                wl.cx.ev("h_write_ok", n as u64, u64::from(stream));
                if !vectored && n != first_len.min(65535) {
                    wl.handler_log[idx].violation.get_or_insert(Violation::new("c10_write_count", "announced_length", format!("poll_write returned {n} for a record set up with a {first_len}-byte buffer (re-polled {} times with {} bytes)", polls - 1, chunk.len())));
                }
                let inv = &mut wl.handler_log[idx];
                inv.writes.push((stream, chunk[..n.min(chunk.len())].to_vec(), n));
                if n > chunk.len() || (n == 0 && !chunk.is_empty()) {
                    inv.violation.get_or_insert(Violation::new("c10_write_count", "", format!("poll_write returned {n} for {} bytes", chunk.len())));
                    return Ok(());
                }
                off += n;
                if off >= data.len() { break; }
            }
            Err(e) => {
                let k = kind_name(&e);
                let mut wl = lock(st_world);
                if wl.retry_failed_writes && e.kind() == io::ErrorKind::BrokenPipe {
                    // documented: after an error the lock is kept and a subsequent call continues the record
                    wl.cx.probe("failed_write_retried");
                    wl.cx.ev("h_write_retry", 0, u64::from(stream));
                    // (a gathered write announced its first non-empty slice)
                    carry = Some(match &cuts {
                        Some(c) => { let mut a = 0usize; let mut l = chunk.len(); for &b in c { if b > a { l = b - a; break; } a = b; } if l == chunk.len() { chunk.len() - a } else { l } }
                        None => first_len,
                    });
                    continue;
                }
                let rp = wl.read_pos;
                wl.handler_log[idx].errors.push((k, "write".into(), rp));
                return Err(e);
            }
        }
    }
    if !flush && lock(st_world).cx.ch.chance(1, 8) {
        // closing a writer (AsyncWriteExt::close) ends nothing on the wire: stream ends belong to the request's
        // epilogue, and the writer stays usable for the exclusion rules
        let before = { let wl = lock(st_world); (wl.log.len(), wl.write_calls) };
        let r = poll_fn(|cx| Pin::new(&mut *w).poll_close(cx)).await;
        let mut wl = lock(st_world);
        wl.cx.probe("writer_poll_close");
        if let Err(e) = r {
            let k = kind_name(&e);
            let rp = wl.read_pos;
            wl.handler_log[idx].errors.push((k, "close".into(), rp));
            return Err(e);
        }
        if wl.knobs.write_pending == 0 && wl.knobs.spurious_polls == 0 && (wl.log.len(), wl.write_calls) != before {
            // (with Pending results other sub-tasks may have written in between: compared only on calm transports)
            let d = format!("poll_close of a StreamWriter wrote to the transport ({} bytes, {} calls)", wl.log.len() - before.0, wl.write_calls - before.1);
            wl.handler_log[idx].violation.get_or_insert(Violation::new("c10_writer_close_wrote", "", d));
        }
    }
    if flush {
        let r = poll_fn(|cx| Pin::new(&mut *w).poll_flush(cx)).await;
        if let Err(e) = r {
            let k = kind_name(&e);
            let mut wl = lock(st_world);
            let rp = wl.read_pos;
            wl.handler_log[idx].errors.push((k, "flush".into(), rp));
            return Err(e);
        }
    }
    Ok(())
}

fn gen_write_data(st: &HState, tag: u8, seq: usize) -> Vec<u8> {
    // very large writes only when the transport does not dribble them out byte by byte
    let big = { let w = lock(&st.world); matches!(w.knobs.write_style, 0 | 3) };
    let len = match st.weighted(&[2, 5, 3, 1, if big { 1 } else { 0 }]) {
        0 => 0,
        1 => st.range(1, 24),
        2 => { let xs = [1usize, 7, 8, 9, 255, 256]; xs[st.pick(xs.len() as u32) as usize] }
        3 => st.range(25, 3000),
        _ => { let xs = [65535usize, 65536, 70000]; xs[st.pick(3) as usize] }
    };
    // content carries (writer tag, call index, offset)
    (0..len).map(|i| tag ^ (seq as u8).wrapping_mul(17) ^ (i as u8).wrapping_mul(3) ^ ((i >> 8) as u8)).collect()
}

fn exit_status(st: &HState) -> (ExitStatus, String) {
    match st.weighted(&[3, 2, 1, 1, 1]) {
        0 => (ExitStatus::SUCCESS, "complete:0".into()),
        1 => { let c = st.range(1, 0xffff_ffff) as u32; (ExitStatus::Complete(c), format!("complete:{c}")) }
        2 => (ExitStatus::Overloaded, "overloaded".into()),
        3 => (ExitStatus::UnknownRole, "unknown_role".into()),
        _ => (ExitStatus::Complete(u32::from_be_bytes(*b"ABRT")), format!("complete:{}", u32::from_be_bytes(*b"ABRT"))),
    }
}

/// The scripted handler. Every decision is drawn from the world's chooser at the moment it is needed.
async fn handler_body(req: &mut Req<'_>, world: Shared, mode: HandlerMode) -> io::Result<ExitStatus> {
    let role = u16::from(req.role());
    let streams = role_streams(role);
    let idx = {
        let mut w = lock(&world);
        let mut env: Vec<(String, Vec<u8>)> = req.env_iter().map(|(k, v)| (k.as_ref().to_string(), v.to_vec())).collect();
        env.sort();
        let inv = Invocation {
            req_id: 0, role, flags: u8::from(req.flags()), env,
            read: vec![Vec::new(); streams.len()], eof: vec![false; streams.len()],
            started_after_shutdown: w.current_poll_started_after_shutdown,
            log_len_at_start: w.log.len(), read_pos_at_start: w.read_pos,
            ..Default::default()
        };
        // the async request's own accessors agree with what env_iter listed (the history oracle compares that with the model)
        let mut acc_bad: Option<String> = None;
        if req.env_len() != inv.env.len() { acc_bad = Some(format!("env_len() = {} but env_iter yields {} entries", req.env_len(), inv.env.len())); }
        for (k, v) in &inv.env {
            let low = k.to_ascii_lowercase();
            for sp in [k.as_str(), low.as_str()] {
                let name = fastcgi_server::cgi::VarName::new(sp);
                if req.get_var(name) != Some(&v[..]) || !req.contains_var(name) { acc_bad = Some(format!("get_var/contains_var({sp:?}) disagree with env_iter")); }
                if req.get_var_str(name) != std::str::from_utf8(v).ok() { acc_bad = Some(format!("get_var_str({sp:?}) disagrees with env_iter")); }
            }
        }
        let absent = fastcgi_server::cgi::VarName::new("__ABSENT_NAME__");
        if !inv.env.iter().any(|(k, _)| k == "__ABSENT_NAME__") && (req.get_var(absent).is_some() || req.contains_var(absent) || req.get_var_str(absent).is_some()) {
            acc_bad = Some("an absent variable is reported as present".into());
        }
        let mut inv = inv;
        if let Some(d) = acc_bad { inv.violation = Some(Violation::new("c07_handler_env", "async_accessors", d)); }
        w.handler_log.push(inv);
        let n = w.handler_log.len() as u64;
        w.cx.ev("handler_start", n, u64::from(role));
        w.handler_log.len() - 1
    };
    let propagate = { let mut w = lock(&world); let p = w.cx.ch.chance(3, 4); p || w.force_propagate };
    let preselected = lock(&world).preselected;
    let active0 = if preselected { req.active_stream().and_then(|t| streams.iter().position(|&s| s == u8::from(t))) } else if streams.is_empty() { None } else { Some(0) };
    let mut st = HState { final_reached: false, world: world.clone(), idx, mode, active: active0, streams, propagate, abandoned: false };
    if !preselected { vcheck_h(&st, req.active_stream().map(u8::from) == streams.first().copied(), "c18_initial", "initial active stream wrong"); }
    st.sample_writeable(req);
    let r = match mode {
        HandlerMode::Writers => handler_writers(req, &mut st).await,
        _ => handler_seq(req, &mut st).await,
    };
    // history: a handler that reacts to the abort signal it got from a read with a last line on stderr before it
    // passes the signal on; if that write fails in the transport, the write's error is what it returns
    let r = match r {
        Err(e) if e.kind() == io::ErrorKind::ConnectionAborted && mode != HandlerMode::Writers && !st.abandoned && req.is_writeable()
            && st.with(|w, inv| w.write_failed_at.is_none() && inv.errors.last().map_or(false, |(k, op, _)| k == "ConnectionAborted" && op != "write"))
            && st.chance(1, 3) =>
        {
            st.probe("write_after_abort_signal");
            st.ev("h_write_after_abort", 0, 0);
            let mut w = req.output_stream(RecordType::Stderr);
            let data = gen_write_data(&st, u8::from(RecordType::Stderr), 99);
            let wr = h_write(&mut w, &st.world, st.idx, data, false).await;
            drop(w);
            match wr { Ok(()) => Err(e), Err(e2) => Err(e2) }
        }
        other => other,
    };
    let r = match r {
        Ok(s) => Ok(s),
        Err(e) => {
            if st.propagate {
                // handlers commonly add context: the kind is what the library may look at
                if st.chance(1, 3) { st.probe("error_propagated_with_context"); Err(io::Error::new(e.kind(), format!("handler context: {e}"))) } else { Err(e) }
            } else {
                // a handler that swallows the error and returns its own status
                let (s, name) = exit_status(&st);
                st.with(|_, inv| inv.status = Some(name));
                st.probe("handler_swallowed_error");
                Ok(s)
            }
        }
    };
    st.with(|w, inv| {
        inv.finished = true;
        inv.read_pos_at_end = w.read_pos;
        if let Err(e) = &r { inv.status = Some(format!("err:{:?}", e.kind())); }
        w.cx.ev("handler_end", 0, 0);
    });
    r
}

fn vcheck_h(st: &HState, cond: bool, oracle: &str, msg: &str) {
    if !cond {
        st.fail(Violation::new(oracle, "", msg.to_string()));
    }
}

async fn handler_seq(req: &mut Req<'_>, st: &mut HState) -> io::Result<ExitStatus> {
    let readers = st.mode == HandlerMode::Readers;
    let max_ops = if readers { 40 } else { 14 };
    // reading plan: 0 all, 1 part, 2 nothing
    let read_plan = st.weighted(&[3, 2, 2]);
    let use_fill = st.chance(1, 2);
    let mut writes = 0usize;
    let mut seq = 0usize;
    let mut abandoned = false;
    for _op in 0..max_ops {
        let n = st.streams.len();
        let at_eof = st.active.map_or(true, |i| st.with(|_, inv| inv.eof[i]));
        let can_read = st.active.is_some() && !(at_eof && !readers);
        let can_advance = st.active.map_or(false, |i| i + 1 < n);
        // op weights: read, fill, advance, writeable+write, return, illegal/ sampling (readers only)
        let w_read = if can_read && read_plan != 2 { if use_fill { 1 } else { 6 } } else { 0 };
        let w_fill = if can_read && read_plan != 2 { if use_fill { 6 } else { 1 } } else { 0 };
        let w_adv = if can_advance { 2 } else { 0 };
        let w_write = if writes < 4 { 3 } else { 0 };
        let w_ret = if read_plan == 0 && can_read && !at_eof { 0 } else if read_plan == 1 { 2 } else { 4 };
        let w_probe = if readers { 3 } else { 0 };
        // a role without input streams can still be read: end-of-file at once, or the abort if one is buffered
        // (not with a pipelining client: with no stream selected the parser ignores everything it is given, which
        // would include the next request)
        let pipelining = lock(&st.world).read_everything;
        if st.streams.is_empty() && read_plan != 2 && !pipelining && st.chance(1, 4) {
            let mut buf = [0u8; 4];
            st.ev("h_idle_read", 0, 0);
            let r = poll_fn(|cx| Pin::new(&mut *req).poll_read(cx, &mut buf)).await;
            let code = match &r { Ok(0) => 0u8, Err(e) if e.kind() == io::ErrorKind::ConnectionAborted => 1, _ => 2 };
            st.with(|w, inv| inv.idle_reads.push((w.read_pos, code)));
            st.probe("read_without_input_stream");
            if let Err(e) = r {
                let k = kind_name(&e);
                st.with(|w, inv| inv.errors.push((k, "read".into(), w.read_pos)));
                return Err(e);
            }
        }
        // re-selecting the stream that is active already is allowed at any time and keeps whatever is buffered
        // (left over from fill_buf + partial consume, or read ahead by writeable())
        if let Some(cur) = st.active {
            if st.chance(1, 12) {
                let t = RecordType::try_from(st.streams[cur]).expect("type");
                st.ev("h_reselect", cur as u64, 0);
                let r = guard(|| req.set_stream(t));
                if let Err(p) = r {
                    st.fail(Violation::new("c18_selection", "async_reselect", format!("re-selecting the active stream {t:?} panicked: {p}")));
                }
                vcheck_h(st, req.active_stream() == Some(t), "c18_selection", "re-selecting the active stream changed the selection");
                st.probe("async_reselect_current");
                st.sample_writeable(req);
            }
        }
        // a read that is polled once and abandoned if not ready (timeout / select! / now_or_never in a real handler)
        let w_try = if can_read && read_plan != 2 { 1 } else { 0 };
        // after an abandoned read the request may still hold the output lock (kept "until a subsequent call wrote a
        // sufficient number of bytes"; reads served from buffered data never get there): a writer would wait on the
        // handler's own request, so this handler does not write any more
        let w_write = if abandoned { 0 } else { w_write };
        let ws = [w_read, w_fill, w_adv, w_write, w_ret.max(if w_read + w_fill + w_adv + w_write == 0 { 1 } else { 0 }), w_probe, w_try];
        match st.weighted(&ws) {
            0 => {
                if st.chance(1, 8) {
                    h_readv(req, st).await?;
                } else {
                    let len = match st.weighted(&[4, 1, 2, 2, 1]) { 0 => st.range(1, 64), 1 => 0, 2 => 1, 3 => st.range(64, 5000), _ => 70000 };
                    if readers {
                        // between two polls of one pending read the handler may advance to the next stream: whatever
                        // the read then returns belongs to the newly selected stream
                        let mut polls = 0u32;
                        let mut hook = |rq: &mut Req<'_>, sth: &mut HState| {
                            polls += 1;
                            let Some(cur) = sth.active else { return false };
                            if polls >= 2 && cur + 1 < sth.streams.len() && sth.chance(1, 6) {
                                let t = RecordType::try_from(sth.streams[cur + 1]).expect("type");
                                sth.ev("h_set_stream_between_polls", (cur + 1) as u64, 0);
                                if let Err(p) = guard(|| rq.set_stream(t)) { sth.fail(Violation::new("c18_selection", "async_set_stream", format!("legal set_stream({t:?}) panicked: {p}"))); }
                                sth.active = Some(cur + 1);
                                sth.probe("stream_advanced_between_polls_of_a_read");
                            }
                            false
                        };
                        h_read_hook(req, st, len, &mut hook).await?;
                    } else {
                        h_read(req, st, len).await?;
                    }
                }
            }
            1 => { h_fill(req, st).await?; }
            6 => {
                let len = st.range(1, 64);
                let mut buf = vec![0u8; len];
                st.ev("h_try_read", len as u64, 0);
                let r = poll_fn(|cx| std::task::Poll::Ready(Pin::new(&mut *req).poll_read(cx, &mut buf))).await;
                match r {
                    std::task::Poll::Ready(Ok(n)) => { st.record_read(n, &buf, len); }
                    std::task::Poll::Ready(Err(e)) => {
                        let k = kind_name(&e);
                        st.with(|w, inv| inv.errors.push((k, "read".into(), w.read_pos)));
                        return Err(e);
                    }
                    std::task::Poll::Pending => { st.probe("read_abandoned_while_pending"); abandoned = true; st.abandoned = true; }
                }
                st.sample_writeable(req);
            }
            2 => {
                let cur = st.active.expect("active");
                let next = cur + 1;
                let t = RecordType::try_from(st.streams[next]).expect("type");
                st.ev("h_set_stream", next as u64, 0);
                let r = guard(|| req.set_stream(t));
                if let Err(p) = r {
                    st.fail(Violation::new("c18_selection", "async_set_stream", format!("legal set_stream({t:?}) panicked: {p}")));
                }
                st.active = Some(next);
                st.sample_writeable(req);
                if readers { st.probe("early_advance_async"); }
            }
            3 => {
                // become writeable (as documented) and write a chunk
                if !req.is_writeable() {
                    st.ev("h_writeable", 0, 0);
                    let r = req.writeable().await;
                    let last = st.streams.len().checked_sub(1);
                    if let Err(e) = r {
                        let k = kind_name(&e);
                        st.with(|w, inv| inv.errors.push((k, "writeable".into(), w.read_pos)));
                        return Err(e);
                    }
                    st.active = last;
                    vcheck_h(st, req.is_writeable(), "c09_writeable", "writeable() returned Ok but is_writeable() is false");
                    st.sample_writeable(req);
                }
                let stream = if st.chance(1, 3) { RecordType::Stderr } else { RecordType::Stdout };
                let mut w = match guard(|| req.output_stream(stream)) {
                    Ok(w) => w,
                    Err(p) => { st.fail(Violation::new("c09_output_stream", "", format!("output_stream panicked although writeable: {p}"))); return Ok(ExitStatus::SUCCESS); }
                };
                vcheck_h(st, w.stream() == stream, "c10_writer_stream", "StreamWriter::stream() differs from the stream it was created for");
                let data = gen_write_data(st, u8::from(stream), seq);
                seq += 1;
                writes += 1;
                let flush = st.chance(1, 4);
                h_write(&mut w, &st.world, st.idx, data, flush).await?;
                drop(w);
            }
            4 => break,
            _ => {
                // C09 probes: illegal selections and output_stream gating under catch_unwind
                st.sample_writeable(req);
                let writeable = req.is_writeable();
                let r = guard(|| { let _w = req.output_stream(RecordType::Stdout); });
                if writeable != r.is_ok() {
                    st.fail(Violation::new("c09_output_stream", "gating", format!("is_writeable()={writeable} but output_stream() {}", if r.is_ok() { "succeeded" } else { "panicked" })));
                }
                if !writeable { st.probe("output_stream_refused"); }
                let r2 = guard(|| { let _w = req.output_stream(RecordType::Stdin); });
                vcheck_h(st, r2.is_err(), "c09_output_stream", "output_stream(Stdin) did not panic");
                // an earlier / absent stream must be rejected (panic) and change nothing
                let before = req.active_stream();
                for cand in [RecordType::Stdin, RecordType::Data] {
                    let pos = st.streams.iter().position(|&s| s == u8::from(cand));
                    let legal = match (pos, st.active) { (Some(c), Some(a)) => c >= a, _ => false };
                    if !legal {
                        let r = guard(|| req.set_stream(cand));
                        vcheck_h(st, r.is_err(), "c18_selection", "async set_stream accepted a rejected selection");
                        vcheck_h(st, req.active_stream() == before, "c18_selection", "rejected async selection changed the active stream");
                        st.probe("async_rejected_selection");
                    }
                }
            }
        }
    }
    if lock(&st.world).read_everything {
        // pipelining client: this handler ends at the end of its final input stream (so the request is closed at a
        // record boundary and nothing of the next request is interpreted on its behalf)
        let n = st.streams.len();
        if let Some(cur) = st.active {
            if cur + 1 < n && st.chance(1, 2) {
                let t = RecordType::try_from(st.streams[n - 1]).expect("type");
                st.ev("h_set_stream", (n - 1) as u64, 0);
                if let Err(p) = guard(|| req.set_stream(t)) { st.fail(Violation::new("c18_selection", "async_set_stream", format!("legal set_stream({t:?}) panicked: {p}"))); }
                st.active = Some(n - 1);
            }
        }
        let mut guard_reads = 0u32;
        while let Some(cur) = st.active {
            if st.with(|_, inv| inv.eof[cur]) {
                if cur + 1 >= n { break; }
                let t = RecordType::try_from(st.streams[cur + 1]).expect("type");
                st.ev("h_set_stream", (cur + 1) as u64, 0);
                if let Err(p) = guard(|| req.set_stream(t)) { st.fail(Violation::new("c18_selection", "async_set_stream", format!("legal set_stream({t:?}) panicked: {p}"))); }
                st.active = Some(cur + 1);
                continue;
            }
            if st.chance(1, 3) { h_fill(req, st).await?; } else { let len = st.range(1, 300); h_read(req, st, len).await?; }
            guard_reads += 1;
            if guard_reads > 200_000 { st.fail(Violation::new("hang", "handler", "200000 reads without reaching end-of-file".into())); break; }
        }
        st.probe("handler_read_to_final_eof");
    }
    let (s, name) = exit_status(st);
    st.with(|_, inv| inv.status = Some(name));
    Ok(s)
}

/// C10: 1..3 writers on separately polled sub-tasks plus a reader sub-task.
async fn handler_writers(req: &mut Req<'_>, st: &mut HState) -> io::Result<ExitStatus> {
    if !req.is_writeable() {
        let r = req.writeable().await;
        if let Err(e) = r {
            let k = kind_name(&e);
            st.with(|w, inv| inv.errors.push((k, "writeable".into(), w.read_pos)));
            return Err(e);
        }
        st.active = st.streams.len().checked_sub(1);
    }
    // a third of the runs start without any writer: writers are created later, between two polls of a pending read,
    // and handed to another sub-task (the request is then the sole owner of the connection when a reply flush begins)
    let late_n = if st.active.is_some() && st.chance(1, 3) { 1 + st.pick(2) as usize } else { 0 };
    let nw = if late_n > 0 { 0 } else { 1 + st.pick(3) as usize };
    let mut writers: Vec<StreamWriter<SimWrite>> = Vec::new();
    if nw > 0 {
        let out = req.output_stream(RecordType::Stdout);
        for i in 0..nw {
            writers.push(match i { 0 => out.clone(), 1 => req.output_stream(RecordType::Stderr), _ => out.clone() });
        }
        drop(out);
    }
    let late_datas: Vec<Vec<u8>> = (0..late_n * 2).map(|sq| gen_write_data(st, 0x60, sq)).collect();
    struct LateSlot { writers: Vec<StreamWriter<SimWrite>>, waker: Option<std::task::Waker>, closed: bool, kept: Vec<StreamWriter<SimWrite>> }
    let slot = std::sync::Arc::new(std::sync::Mutex::new(LateSlot { writers: Vec::new(), waker: None, closed: false, kept: Vec::new() }));
    let mut futs: Vec<Pin<Box<dyn std::future::Future<Output = io::Result<()>> + Send + '_>>> = Vec::new();
    let world = st.world.clone();
    let idx = st.idx;
    // the writers outlive their sub-tasks (a handler that gives up on an error still owns them until it returns)
    for (wi, w) in writers.iter_mut().enumerate() {
        let world = world.clone();
        let n_writes = 1 + st.pick(4) as usize;
        let mut datas = Vec::new();
        for s in 0..n_writes {
            datas.push((gen_write_data(st, 0x10 * (wi as u8 + 1), s), st.chance(1, 4)));
        }
        futs.push(Box::pin(async move {
            for (d, flush) in datas {
                h_write(&mut *w, &world, idx, d, flush).await?;
            }
            Ok(())
        }));
    }
    // reader sub-task: drives the request's own reply flushing while management records arrive
    let with_reader = st.active.is_some() && (late_n > 0 || st.chance(2, 3));
    if with_reader { st.probe("reader_subtask"); }
    let rworld = world.clone();
    let active = st.active;
    let reader_reads = if st.chance(1, 2) { st.range(1, 6) } else { st.range(6, 30) };
    let reader_len = st.range(1, 48);
    let req_ref = &mut *req;
    let slot_reader = slot.clone();
    if late_n > 0 {
        // consumer of the late writers
        let slot_c = slot.clone();
        let world_c = world.clone();
        let mut datas = late_datas.clone().into_iter();
        futs.push(Box::pin(async move {
            loop {
                let got = poll_fn(|cx| {
                    let mut g = slot_c.lock().unwrap_or_else(std::sync::PoisonError::into_inner);
                    if let Some(w) = g.writers.pop() { return std::task::Poll::Ready(Some(w)); }
                    if g.closed { return std::task::Poll::Ready(None); }
                    g.waker = Some(cx.waker().clone());
                    std::task::Poll::Pending
                }).await;
                let Some(mut w) = got else { break };
                for _ in 0..2 {
                    if let Some(d) = datas.next() {
                        if let Err(e) = h_write(&mut w, &world_c, idx, d, false).await {
                            // keep the writer (and whatever it holds) until the handler returns
                            slot_c.lock().unwrap_or_else(std::sync::PoisonError::into_inner).kept.push(w);
                            return Err(e);
                        }
                    }
                }
                drop(w);
            }
            Ok(())
        }));
    }
    if with_reader {
        futs.push(Box::pin(async move {
            let mut stl = HState { final_reached: false, world: rworld, idx, mode: HandlerMode::Writers, active, streams: role_streams(u16::from(req_ref.role())), propagate: true, abandoned: false };
            let mut to_spawn = late_n;
            let slot_r = slot_reader;
            let mut hook = |rq: &mut Req<'_>, sth: &mut HState| {
                if to_spawn > 0 && sth.chance(1, 3) {
                    let t = if to_spawn % 2 == 0 { RecordType::Stderr } else { RecordType::Stdout };
                    let w = rq.output_stream(t);
                    let mut g = slot_r.lock().unwrap_or_else(std::sync::PoisonError::into_inner);
                    g.writers.push(w);
                    to_spawn -= 1;
                    sth.probe("writer_created_between_polls_of_a_read");
                    if let Some(wk) = g.waker.take() { drop(g); wk.wake(); }
                    return true;
                }
                false
            };
            let mut res = Ok(());
            for _ in 0..reader_reads {
                match h_read_hook(req_ref, &mut stl, reader_len, &mut hook).await {
                    Ok(0) => break,
                    Ok(_) => {}
                    Err(e) => { res = Err(e); break; }
                }
            }
            // whatever was not handed over yet is created now; then the consumer is told that nothing more comes
            {
                let mut g = slot_r.lock().unwrap_or_else(std::sync::PoisonError::into_inner);
                while to_spawn > 0 && res.is_ok() {
                    g.writers.push(req_ref.output_stream(RecordType::Stdout));
                    to_spawn -= 1;
                }
                g.closed = true;
                if let Some(wk) = g.waker.take() { drop(g); wk.wake(); }
            }
            res
        }));
    }
    let mut join = Join::new(world.clone(), futs);
    // a handler that propagates I/O errors gives up as soon as one of its sub-tasks fails (try_join): the other
    // writers are dropped where they stand, possibly in the middle of a record
    if lock(&world).force_propagate { join.fail_fast = Some(|r: &io::Result<()>| r.is_err()); }
    let results = join.await;
    for r in results {
        r?;
    }
    if st.active.is_some() && st.chance(1, 4) {
        // a last read that is polled once and abandoned when it is not ready: the request may be left in the
        // middle of flushing a management reply (holding the output lock); close() has to finish that record
        let mut buf = [0u8; 8];
        st.ev("h_try_read", 8, 0);
        let r = poll_fn(|cx| std::task::Poll::Ready(Pin::new(&mut *req).poll_read(cx, &mut buf))).await;
        match r {
            std::task::Poll::Ready(Ok(n)) => { st.record_read(n, &buf, 8); }
            std::task::Poll::Ready(Err(e)) => {
                let k = kind_name(&e);
                st.with(|w, inv| inv.errors.push((k, "read".into(), w.read_pos)));
                return Err(e);
            }
            std::task::Poll::Pending => { st.probe("read_abandoned_while_pending"); }
        }
    }
    let (s, name) = exit_status(st);
    st.with(|_, inv| inv.status = Some(name));
    Ok(s)
}

pub fn make_handler(world: Shared, mode: HandlerMode) -> impl for<'a> FnMut(&'a mut Request<'_, SimRead, SimWrite>) -> BoxFuture<'a, io::Result<ExitStatus>> {
    move |req| {
        let w = world.clone();
        Box::pin(async move { handler_body(req, w, mode).await })
    }
}

// ------------------------------------------------------------------ running a connection

pub struct ConnOpts {
    pub mode: HandlerMode,
    pub rfault: RFault,
    pub wfault: WFault,
    /// Request shutdown as a scheduler event once this many steps have run (C14).
    pub shutdown: Option<u64>,
    pub strict_no_spurious: bool,
    /// C14: request shutdown from inside this transport read call instead of between polls.
    pub shutdown_in_read: Option<usize>,
}

pub struct ConnOutcome {
    pub task_done: bool,
    pub task_panicked: Option<String>,
    pub end: &'static str,
    pub world: World,
    pub shutdown_done: bool,
    pub shutdown_polls_pending_while_live: bool,
    pub shutdown_ready_while_live: bool,
}

pub fn gen_knobs(cx: &mut Ctx, spurious: bool, wire_len: usize) -> Knobs {
    let calm = wire_len > 6000;
    Knobs {
        read_style: if calm { cx.ch.one_of(&[0u32, 3]) } else { cx.ch.weighted(&[3, 2, 2, 3]) as u32 },
        write_style: cx.ch.weighted(&[3, 2, 2, 3]) as u32,
        read_pending: cx.ch.one_of(&[0u32, 0, 2, 6]),
        write_pending: cx.ch.one_of(&[0u32, 0, 2, 6]),
        deliver_style: if calm { cx.ch.one_of(&[0u32, 2]) } else { cx.ch.weighted(&[3, 2, 3]) as u32 },
        spurious_polls: if spurious { cx.ch.one_of(&[0u32, 0, 1, 4]) } else { 0 },
        fresh_wakers: cx.ch.chance(1, 2),
        vectored_first_only: cx.ch.chance(1, 4),
    }
}

/// Runs one connection to quiescence. Takes the run context by value and gives it back in the outcome's world.
pub fn run_conn(cx: Ctx, plan: &Plan, knobs: Knobs, o: &ConnOpts) -> ConnOutcome {
    run_conn_with(cx, plan, knobs, o, |_| {})
}

pub fn run_conn_with(cx: Ctx, plan: &Plan, knobs: Knobs, o: &ConnOpts, init: impl FnOnce(&mut World)) -> ConnOutcome {
    let mut world = World::new(cx, knobs, plan.wire.clone(), plan.segs.clone());
    world.rfault = o.rfault;
    world.wfault = o.wfault;
    init(&mut world);
    let shared: Shared = std::sync::Arc::new(std::sync::Mutex::new(world));
    let cfg = config(plan.bufsize, plan.max_conns);
    let runner: Runner = cfg.async_runner();
    let mut ex = Exec::new(shared.clone());
    // obtain a token (slot is free: must be immediately ready)
    let token = {
        let fut = runner.get_token();
        futures_util::pin_mut!(fut);
        let flag = WakeFlag::new(false);
        let waker = std::task::Waker::from(flag);
        let mut c = std::task::Context::from_waker(&waker);
        match fut.poll(&mut c) {
            std::task::Poll::Ready(t) => t,
            std::task::Poll::Pending => panic!("harness: first token not immediately available"),
        }
    };
    let handler = make_handler(shared.clone(), o.mode);
    let conn = token.run(SimRead(shared.clone()), SimWrite(shared.clone()), handler);
    ex.tasks.push(Task::new("conn", Box::pin(conn)));
    // the runner lives in a shared slot: the shutdown request may also come from inside a transport read
    let runner_slot: std::sync::Arc<std::sync::Mutex<Option<Runner>>> = std::sync::Arc::new(std::sync::Mutex::new(Some(runner)));
    let fut_slot: std::sync::Arc<std::sync::Mutex<Option<Pin<Box<dyn Future<Output = ()> + Send>>>>> = std::sync::Arc::new(std::sync::Mutex::new(None));
    if let Some(call) = o.shutdown_in_read {
        let (rs, fs) = (runner_slot.clone(), fut_slot.clone());
        let mut w = lock(&shared);
        w.shutdown_in_read_call = Some(call);
        w.mid_poll_shutdown = Some(Box::new(move || {
            if let Some(r) = rs.lock().unwrap_or_else(std::sync::PoisonError::into_inner).take() {
                *fs.lock().unwrap_or_else(std::sync::PoisonError::into_inner) = Some(Box::pin(r.shutdown()));
            }
        }));
    }
    let mut shutdown_task: Option<usize> = None;
    let mut pending_while_live = false;
    let mut ready_while_live = false;
    let mut want_shutdown = o.shutdown;
    let end = loop {
        let ws = want_shutdown;
        let mut control = |ex: &mut Exec, fire: Option<usize>| -> Vec<usize> {
            match fire {
                None => {
                    // a shutdown future created inside a transport read becomes a task of its own now
                    if let Some(f) = fut_slot.lock().unwrap_or_else(std::sync::PoisonError::into_inner).take() {
                        ex.tasks.push(Task::new("shutdown", f));
                    }
                    let due = ws.map_or(false, |t| lock(&ex.world).step >= t);
                    if due && runner_slot.lock().unwrap_or_else(std::sync::PoisonError::into_inner).is_some() { vec![0] } else { Vec::new() }
                }
                Some(_) => {
                    // request shutdown now
                    let Some(r) = runner_slot.lock().unwrap_or_else(std::sync::PoisonError::into_inner).take() else { return Vec::new() };
                    {
                        let mut w = lock(&ex.world);
                        let step = w.step;
                        w.shutdown_requested_at_step = Some(step);
                        w.idle_at_shutdown = w.handler_log.iter().all(|h| h.finished) && w.handler_log.len() <= w.end_requests;
                        if w.idle_at_shutdown && w.freeze_if_idle { w.peer_frozen = true; w.cx.probe("client_frozen_at_shutdown"); }
                        w.reads_after_mark = 0;
                        w.cx.fault("shutdown_requested");
                        let phase = if w.handler_log.iter().any(|h| !h.finished) { "shutdown_during_handler" } else if w.read_calls == 0 { "shutdown_before_first_read" } else { "shutdown_between_or_preamble" };
                        w.cx.probe(phase);
                        w.cx.ev("shutdown", 0, 0);
                    }
                    let fut = r.shutdown();
                    ex.tasks.push(Task::new("shutdown", Box::pin(fut)));
                    Vec::new()
                }
            }
        };
        let e = ex.run(&mut control);
        match e {
            RunEnd::Quiescent => {
                if fut_slot.lock().unwrap_or_else(std::sync::PoisonError::into_inner).is_some() { continue; }
                if want_shutdown.is_some() && runner_slot.lock().unwrap_or_else(std::sync::PoisonError::into_inner).is_some() {
                    // everything settled before the chosen step: request shutdown now
                    want_shutdown = Some(0);
                    continue;
                }
                break "quiescent";
            }
            RunEnd::StepCap | RunEnd::Paused => break "step_cap",
        }
    };
    if let Some(i) = ex.tasks.iter().position(|t| t.name == "shutdown") { shutdown_task = Some(i); }
    let _ = (&mut pending_while_live, &mut ready_while_live);
    let task_done = ex.tasks[0].done();
    let task_panicked = ex.tasks[0].panicked.clone();
    let shutdown_done = shutdown_task.map_or(false, |i| ex.tasks[i].done());
    // the shutdown future must not be Ready while the connection token lives
    if let Some(i) = shutdown_task {
        if ex.tasks[i].done() && !task_done { ready_while_live = true; }
        if !ex.tasks[i].done() && task_done { pending_while_live = true; }
    }
    drop(ex);
    drop(runner_slot);
    let world = {
        let mut g = lock(&shared);
        let dummy = World::new(Ctx::new(Chooser::replay(Vec::new()), false), knobs, Vec::new(), Vec::new());
        std::mem::replace(&mut *g, dummy)
    };
    ConnOutcome { task_done, task_panicked, end, world, shutdown_done, shutdown_polls_pending_while_live: pending_while_live, shutdown_ready_while_live: ready_while_live }
}

// ------------------------------------------------------------------ oracles over the history

fn status_to_end(status: &str) -> Option<(u32, u8)> {
    if let Some(c) = status.strip_prefix("complete:") {
        return c.parse().ok().map(|c| (c, ST_COMPLETE));
    }
    match status {
        "overloaded" => Some((0, ST_OVERLOADED)),
        "unknown_role" => Some((0, ST_UNKNOWN_ROLE)),
        "err:ConnectionAborted" => Some((u32::from_be_bytes(*b"ABRT"), ST_COMPLETE)),
        _ => None,
    }
}

pub struct Expect {
    /// Non-reply records expected in the log, in order (complete connection).
    pub nonreply: Vec<Rec>,
}

/// Checks the transport log and handler log of a fault-free run against M-conn.
/// `served`: number of requests that must have been served (all of them for compliant fault-free runs).
pub fn check_history(out: &ConnOutcome, plan: &Plan, allow_abort_forms: bool, oracle_prefix: &str) -> VResult {
    check_history_mode(out, plan, allow_abort_forms, oracle_prefix, false, usize::MAX, false)
}

/// `faulted`: a transport fault was injected: the log may stop early (missing tail is accepted, a
/// partial record at the end is accepted), everything present must still be right.
/// `input_limit`: number of input bytes the transport ever delivered (EOF offset).
pub fn check_history_mode(out: &ConnOutcome, plan: &Plan, allow_abort_forms: bool, oracle_prefix: &str, faulted: bool, input_limit: usize, allow_partial_tail: bool) -> VResult {
    let w = &out.world;
    vcheck!(!w.flooded, "runaway_output", "the connection wrote more than 24 MiB ({} write calls): a write loop that does not advance", w.write_calls);
    vcheck!(!w.spun, "spin", "a single poll of the connection task made more than {} transport calls without returning (read {} bytes, eof reported: {})", SPIN_LIMIT, w.read_pos, w.eof_reported);
    for inv in &w.handler_log {
        if let Some(v) = &inv.violation { return Err(v.clone()); }
    }
    if let Some(p) = &out.task_panicked {
        vfail!("panic", "Token::run", "connection task panicked: {p}");
    }
    if !faulted && !allow_partial_tail {
        vcheck!(w.decoded_upto == w.log.len(), &format!("{oracle_prefix}_log_wellformed"), "transport log ends in a partial record ({} trailing bytes)", w.log.len() - w.decoded_upto);
    } else if w.decoded_upto < w.log.len() {
        let tail = &w.log[w.decoded_upto..];
        vcheck!(tail[0] == 1 && (tail.len() < 2 || is_known_type(tail[1])), &format!("{oracle_prefix}_log_wellformed"), "partial record at the end of the log does not start like a record: {}", hex(tail));
    }
    // split the log
    let is_reply = |r: &Rec| r.rtype == GETVALUESRESULT || r.rtype == UNKNOWN;
    let mut reply_bytes = Vec::new();
    let mut others: Vec<&Rec> = Vec::new();
    for r in &w.decoded {
        vcheck!(r.version == 1, &format!("{oracle_prefix}_log_wellformed"), "record with version {}", r.version);
        if is_reply(r) { reply_bytes.extend(r.bytes()); } else { others.push(r); }
    }
    // END-type replies (CantMpx / UnknownRole / abort during Params) are told apart from the epilogue by position:
    // build the expected non-reply sequence request by request.
    let served = w.handler_log.len();
    let mut exp_nonreply: Vec<Rec> = Vec::new();
    let end_replies: Vec<&Reply> = plan.replies.iter().filter(|r| reply_is_end(r)).collect();
    let mut er = 0usize;
    let mut expected_served = 0usize;
    let mut conn_open = true;
    // (request index, index in exp_nonreply of its epilogue's EndRequest)
    let mut epilogue_at: Vec<(usize, usize)> = Vec::new();
    for (i, rp) in plan.reqs.iter().enumerate() {
        if !conn_open { break; }
        // END replies owed during this request's idle/Params phase come first
        while er < end_replies.len() && end_replies[er].rec_start < rp.info.end {
            let (recs, _) = wire::decode_all(&end_replies[er].bytes);
            exp_nonreply.extend(recs);
            er += 1;
        }
        expected_served += 1;
        let Some(inv) = w.handler_log.get(i) else { break };
        // handler invocation saw the right request
        vcheck!(inv.role == rp.role && inv.flags == rp.flags, &format!("{oracle_prefix}_handler_request"), "handler {i} saw role {} flags {:#x}, expected {} {:#x}", inv.role, inv.flags, rp.role, rp.flags);
        let exp_env: Vec<(String, Vec<u8>)> = rp.info.env.iter().map(|(k, v)| (k.clone(), v.clone())).collect();
        vcheck!(inv.env == exp_env, &format!("{oracle_prefix}_handler_env"), "handler {i} saw a different environment ({} vs {} entries)", inv.env.len(), exp_env.len());
        for (s, got) in inv.read.iter().enumerate() {
            let c = &rp.sm.content[s];
            if !c.starts_with(got) {
                vfail!(&format!("{oracle_prefix}_handler_input"), "", "handler {i} stream {} received {} which is not a prefix of the stream content {}", role_streams(rp.role)[s], hex(got), hex(c));
            }
            if inv.eof[s] {
                let barrier = rp.sm.hold_limit(Some(s));
                let ended = rp.sm.stop[s].map_or(false, |p| p == barrier && p + 8 <= input_limit);
                vcheck!(ended, &format!("{oracle_prefix}_spurious_eof"), "handler {i} saw end-of-file on stream {} but no terminating record of that stream was delivered (input limit {input_limit}, model terminator {:?})", role_streams(rp.role)[s], rp.sm.stop[s]);
                vcheck!(got.len() == c.len(), &format!("{oracle_prefix}_short_stream"), "handler {i} read stream {} to end-of-file but received {} of {} bytes", role_streams(rp.role)[s], got.len(), c.len());
                // bytes may legitimately be missing only if the handler skipped ahead; with eof seen on this stream
                // while it was active from the start, everything must have been delivered
            }
            vcheck!(!inv.eof_then_data, &format!("{oracle_prefix}_eof_not_sticky"), "handler {i} received data after end-of-file on the same stream");
        }
        for (kind, op, at) in &inv.errors {
            if kind == "ConnectionAborted" {
                let ok = rp.sm.abort.map_or(false, |a| a + 8 <= *at);
                vcheck!(ok, "c11_spurious_abort", "handler {i} got ConnectionAborted from {op} after {at} input bytes but the model's own-id AbortRequest is at {:?}", rp.sm.abort);
            } else if !faulted {
                vfail!(&format!("{oracle_prefix}_handler_error"), "", "handler {i}: {op} failed with {kind} on a fault-free transport");
            }
        }
        for &(at, code) in &inv.idle_reads {
            let buffered_abort = rp.sm.abort.map_or(false, |a| a + 8 <= at);
            if !faulted {
                if buffered_abort {
                    vcheck!(code == 1, "c11_abort_not_reported", "handler {i} (no input streams) read after the AbortRequest header at {:?} was received ({at} bytes read) but got {}", rp.sm.abort, if code == 0 { "end-of-file" } else { "another result" });
                } else {
                    vcheck!(code == 0, &format!("{oracle_prefix}_handler_input"), "handler {i} (no input streams): read returned {} instead of end-of-file", if code == 1 { "ConnectionAborted without an abort" } else { "an unexpected result" });
                }
            }
        }
        // handler output records
        for (stream, data, n) in &inv.writes {
            vcheck!(*n == data.len(), "c10_write_count", "write returned {n} for {} accepted bytes", data.len());
            if data.is_empty() { continue; }
            exp_nonreply.push(Rec::new(*stream, rp.id, data.clone(), std_padding(data.len())));
        }
        let Some(status) = &inv.status else {
            conn_open = false;
            break;
        };
        match status_to_end(status) {
            Some((app, proto)) => {
                if !(allow_abort_forms && rp.has_abort) {
                    exp_nonreply.push(Rec::new(STDOUT, rp.id, Vec::new(), 0));
                    exp_nonreply.push(Rec::new(STDERR, rp.id, Vec::new(), 0));
                } else {
                    exp_nonreply.push(Rec::new(0xfe, rp.id, Vec::new(), 0)); // marker: optional stream ends
                }
                epilogue_at.push((i, exp_nonreply.len()));
                exp_nonreply.push(end_request(rp.id, app, proto));
                if rp.flags & 1 == 0 { conn_open = false; }
            }
            None => { conn_open = false; }
        }
    }
    if conn_open {
        while er < end_replies.len() {
            let (recs, _) = wire::decode_all(&end_replies[er].bytes);
            exp_nonreply.extend(recs);
            er += 1;
        }
    }
    let _ = (served, expected_served);
    // compare sequences (with the optional-stream-ends marker)
    let mut gi = 0usize;
    let mut k = 0usize;
    // positions (index into `others`) at which the expected EndRequest records of the served requests were matched
    let mut matched_at: Vec<(usize, usize)> = Vec::new(); // (index into exp_nonreply, index into others)
    // concurrent writers (C10): handler output of one request may interleave across writers; the expected list
    // was built in completion order, which is the order in which records were finished on the wire.
    while k < exp_nonreply.len() {
        let e = &exp_nonreply[k];
        if e.rtype == 0xfe {
            // optional Stdout{} Stderr{}
            if gi + 1 < others.len() && others[gi].rtype == STDOUT && others[gi].content.is_empty() && others[gi + 1].rtype == STDERR && others[gi + 1].content.is_empty() {
                gi += 2;
            } else if faulted && gi + 1 == others.len() && others[gi].rtype == STDOUT && others[gi].content.is_empty() {
                // the fault cut the log between the two optional stream ends
                return Ok(());
            }
            k += 1;
            continue;
        }
        let Some(g) = others.get(gi) else {
            if faulted { return Ok(()); }
            vfail!(&format!("{oracle_prefix}_missing_output"), "", "transport log ends after {} non-reply records; next expected {} (handler invocations {}, task done {})", gi, e.short(), w.handler_log.len(), out.task_done);
        };
        if **g != *e {
            vfail!(&format!("{oracle_prefix}_output_mismatch"), "", "non-reply record #{gi}: got {} expected {}", g.short(), e.short());
        }
        matched_at.push((k, gi));
        gi += 1;
        k += 1;
    }
    if gi < others.len() && faulted {
        // a handler write that was cut short by the fault is not in the handler log: accept one such record
        // only if it is a partial? no: complete records not accounted for are wrong even under faults, except
        // a record whose write call had not returned yet when the run ended
        let pending_ok = others.len() - gi == 1 && (others[gi].rtype == STDOUT || others[gi].rtype == STDERR) && !others[gi].content.is_empty();
        vcheck!(pending_ok, &format!("{oracle_prefix}_extra_output"), "unexpected extra record in the log: {}", others[gi].short());
        return Ok(());
    }
    vcheck!(gi == others.len(), &format!("{oracle_prefix}_extra_output"), "unexpected extra record in the log: {}", others[gi.min(others.len().saturating_sub(1))].short());
    if !faulted {
        // "answered - after all handler output and all pending management replies - by ... EndRequest": every query
        // that lies before an input byte this request's handler was given (or before the terminator it saw as
        // end-of-file, or inside the preamble) was parsed during this request, so its reply precedes the EndRequest
        let pos_in_decoded = |oi: usize| -> usize {
            // index in w.decoded of the oi-th non-reply record
            let mut c = 0usize;
            for (di, r) in w.decoded.iter().enumerate() { if !is_reply(r) { if c == oi { return di; } c += 1; } }
            w.decoded.len()
        };
        let nonend_replies: Vec<&Reply> = plan.replies.iter().filter(|r| !reply_is_end(r)).collect();
        for &(i, ke) in &epilogue_at {
            let rp = &plan.reqs[i];
            let inv = &w.handler_log[i];
            let Some(&(_, oi)) = matched_at.iter().find(|(k2, _)| *k2 == ke) else { break };
            let end_di = pos_in_decoded(oi);
            let mut parsed_upto = rp.info.end;
            for (sidx, got) in inv.read.iter().enumerate() {
                if inv.eof[sidx] {
                    if let Some(st) = rp.sm.stop[sidx] { parsed_upto = parsed_upto.max(st); }
                } else if !got.is_empty() {
                    if let Some(o) = model::stream_byte_end(&plan.wire, rp.info.end, rp.id, rp.role, sidx, got.len()) { parsed_upto = parsed_upto.max(o); }
                }
            }
            let owed_before_end = nonend_replies.iter().filter(|r| r.rec_end <= parsed_upto).count();
            let replies_before_end = w.decoded[..end_di.min(w.decoded.len())].iter().filter(|r| is_reply(r)).count();
            vcheck!(replies_before_end >= owed_before_end, &format!("{oracle_prefix}_reply_after_end_request"), "EndRequest of request {i} (id {}) was written when only {replies_before_end} management replies were in the log, but {owed_before_end} queries lie before input the request had already parsed (offset {parsed_upto})", rp.id);
        }
    }
    Ok(())
}

/// Replies: exactly once, in arrival order, each after its query was read by the library.
pub fn check_replies(out: &ConnOutcome, plan: &Plan, read_upto: usize, exact: bool, oracle_prefix: &str) -> VResult {
    let w = &out.world;
    let exp: Vec<&Reply> = plan.replies.iter().filter(|r| !reply_is_end(r)).collect();
    let mut k = 0usize;
    for (ri, r) in w.decoded.iter().enumerate() {
        if r.rtype != GETVALUESRESULT && r.rtype != UNKNOWN { continue; }
        let Some(e) = exp.get(k) else {
            vfail!(&format!("{oracle_prefix}_reply_extra"), "", "reply {} has no query", r.short());
        };
        vcheck!(r.bytes() == e.bytes, &format!("{oracle_prefix}_reply_mismatch"), "reply #{k}: got {} expected {}", r.short(), hex(&e.bytes));
        vcheck!(w.decoded_at_read[ri] >= e.trigger, &format!("{oracle_prefix}_reply_premature"), "reply #{k} completed when only {} input bytes were read; its query ends at {}", w.decoded_at_read[ri], e.trigger);
        k += 1;
    }
    // A keep-alive connection that ended because the client closed (EOF seen while waiting for the next
    // request) has parsed every complete record it read: each of them is owed its reply.
    let ended_on_eof = out.task_done && w.eof_reported && w.write_failed_at.is_none() && w.rfault == RFault::None && w.wfault == WFault::None
        && w.handler_log.last().map_or(true, |h| h.finished && h.status.as_deref().map_or(false, |s| !s.starts_with("err:") || s == "err:ConnectionAborted"))
        && plan.reqs.get(w.handler_log.len().wrapping_sub(1)).map_or(w.handler_log.is_empty(), |r| r.flags & 1 == 1)
        && w.shutdown_requested_at_step.is_none();
    if exact || ended_on_eof {
        let owed = exp.iter().filter(|e| e.rec_end <= read_upto).count();
        vcheck!(k >= owed, &format!("{oracle_prefix}_reply_missing"), "{k} replies in the log but {owed} queries were read completely (read {} bytes) by a connection that ended on client EOF", read_upto);
    }
    Ok(())
}

pub const F_TRANSPORT: &[&str] = &["short_read", "read_pending_nodata", "read_pending_withdata", "short_write", "write_pending"];
pub const F_FLUSH: &[&str] = &["flush_pending", "spurious_child_poll"];
pub const F_SPURIOUS: &[&str] = &["spurious_poll"];
pub const F_INJECT: &[&str] = &["read_error", "eof_injected", "write_error", "zero_write", "flush_error"];
pub const P_BASE: &[&str] = &["buffer_holds_whole_huge_record", "read_filled_buffer", "write_cut_in_header", "write_cut_at_seam", "write_cut_in_padding", "requests_2plus", "buffer_24", "fresh_waker_per_poll", "vectored_write_first_slice_only", "burst_of_1100plus_reply_records", "environment_larger_than_buffer"];
pub const P_C07: &[&str] = &["read_abandoned_while_pending", "keep_conn_reuse", "no_keep_conn_close", "handler_left_input_unread", "long_lived_connection", "connection_of_260plus_requests"];
#[allow(dead_code)]
pub const D2_FAULTS: &[&str] = &[
    "short_read", "read_pending_nodata", "read_pending_withdata", "short_write", "write_pending", "spurious_poll",
    "read_error", "eof_injected", "write_error", "zero_write", "shutdown_requested",
];
#[allow(dead_code)]
pub const D2_PROBES: &[&str] = &[
    "read_with_empty_buffer", "read_filled_buffer", "write_cut_in_header", "write_cut_at_seam", "write_cut_in_padding",
    "handler_swallowed_error", "reader_subtask", "output_stream_refused", "async_rejected_selection", "early_advance_async",
    "keep_conn_reuse", "no_keep_conn_close", "handler_left_input_unread", "requests_2plus", "buffer_24",
    "shutdown_during_handler", "shutdown_before_first_read", "shutdown_between_or_preamble",
];

fn take_cx(cx: &mut Ctx) -> Ctx {
    std::mem::replace(cx, Ctx::new(Chooser::replay(Vec::new()), false))
}

fn give_back(cx: &mut Ctx, out: &mut ConnOutcome) {
    let inner = std::mem::replace(&mut out.world.cx, Ctx::new(Chooser::replay(Vec::new()), false));
    *cx = inner;
}

fn note_plan(cx: &mut Ctx, plan: &Plan) {
    if plan.reqs.len() >= 2 { cx.probe("requests_2plus"); }
    if effective(plan.bufsize) == 24 { cx.probe("buffer_24"); }
    if cx.want_sample { cx.sample = Some(plan.desc.clone()); }
}

/// Liveness + reuse clauses shared by C07-like scenarios (fault-free, compliant client).
fn check_termination(out: &ConnOutcome, plan: &Plan, oracle_prefix: &str) -> VResult {
    let w = &out.world;
    vcheck!(out.end == "quiescent", "hang", "step cap reached: the connection task keeps running without finishing");
    // Quiescence = no task has been woken and the environment has nothing left to do (the client has sent all it may
    // send before it sees more output, or has closed). A connection task that is still pending then waits for
    // something that will never come: the two sides wait on each other (or the task sleeps through a wake-up it
    // never got) - whatever it is suspended on.
    if !out.task_done {
        let in_handler = w.handler_log.iter().any(|h| !h.finished);
        let on = if w.read_waker.is_some() { "transport read" } else if w.write_waker.is_some() { "transport write" } else { "something that is not the transport (a lock or a sub-task that is never woken)" };
        let site = if in_handler { "handler_never_resumed" } else { "task_never_resumed" };
        if !(w.read_waker.is_some() && w.next_seg < w.segs.len() && !w.owed_triggers.is_empty()) {
            // (the closed-loop read-side cycle keeps its own, more specific report)
            vfail!(&format!("{oracle_prefix}_stalled"), site, "nothing is runnable and the client can do nothing more, but the connection task is unfinished: it is suspended on {on} (read {} of {} bytes sent, {} handler invocations, in handler: {in_handler})", w.read_pos, w.sent, w.handler_log.len());
        }
    }
    // every request must have been served: the client script is compliant and complete
    let mut expect_served = 0;
    for rp in &plan.reqs {
        expect_served += 1;
        if rp.flags & 1 == 0 { break; }
    }
    let all_have_status = w.handler_log.iter().all(|h| h.status.as_deref().map_or(false, |s| !s.starts_with("err:") || s == "err:ConnectionAborted"));
    if all_have_status {
        if w.handler_log.len() < expect_served {
            let site = if w.empty_buf_reads > 0 && out.task_done { "closed_after_read_into_full_buffer" } else if w.read_waker.is_some() { "suspended_on_read" } else if w.eof_reported { "closed_on_eof" } else if out.task_done { "task_returned" } else { "other" };
            vfail!(&format!("{oracle_prefix}_request_not_served"), site,
                "{} of {expect_served} requests reached a handler (task done: {}, read {} of {} bytes sent, peer waiting on gate: {})",
                w.handler_log.len(), out.task_done, w.read_pos, w.sent, w.next_seg < w.segs.len());
        }
        vcheck!(w.handler_log.len() == expect_served, &format!("{oracle_prefix}_extra_invocation"), "{} handler invocations for {expect_served} requests", w.handler_log.len());
        vcheck!(out.task_done, &format!("{oracle_prefix}_task_not_finished"), "client closed after its last request but the task did not finish");
        let last = &plan.reqs[expect_served - 1];
        if last.flags & 1 == 0 {
            vcheck!(w.read_dropped && w.write_dropped, &format!("{oracle_prefix}_transport_not_dropped"), "no keep-conn flag but the transport was not dropped");
        }
    }
    Ok(())
}

/// C07: fault-free population, open-loop compliant client.
pub fn c07(cx: &mut Ctx) -> VResult {
    cx.declare(F_TRANSPORT, P_BASE);
    cx.declare(F_SPURIOUS, P_C07);
    // one run in 16 is a long-lived keep-alive connection (5..12 requests): state carried from request to request
    let max_reqs = if cx.ch.chance(1, 16) { 12 } else if cx.ch.chance(1, 120) { 300 } else { 4 };
    let o = PlanOpts { max_reqs, noise: cx.ch.pick(4), closed_loop: false, abort: false, small_buf_bias: cx.ch.chance(1, 2), force_keep: false, either_noise: false, pipelined: false, burst: false };
    let plan = gen_plan(cx, &o);
    note_plan(cx, &plan);
    let knobs = gen_knobs(cx, true, plan.wire.len());
    let inner = take_cx(cx);
    let mut out = run_conn(inner, &plan, knobs, &ConnOpts { mode: HandlerMode::Seq, rfault: RFault::None, wfault: WFault::None, shutdown: None, strict_no_spurious: false, shutdown_in_read: None });
    give_back(cx, &mut out);
    for (i, inv) in out.world.handler_log.iter().enumerate() {
        if let Some(rp) = plan.reqs.get(i) {
            if inv.read.iter().zip(rp.sm.content.iter()).any(|(g, c)| g.len() < c.len()) { cx.probe("handler_left_input_unread"); }
            if rp.flags & 1 == 1 && i + 1 < out.world.handler_log.len() { cx.probe("keep_conn_reuse"); }
            if rp.flags & 1 == 0 { cx.probe("no_keep_conn_close"); }
        }
    }
    handler_violations(&out)?;
    check_termination(&out, &plan, "c07")?;
    check_history(&out, &plan, false, "c07")?;
    check_replies(&out, &plan, out.world.read_pos, false, "c07")?;
    Ok(())
}

fn handler_violations(out: &ConnOutcome) -> VResult {
    vcheck!(!out.world.flooded, "runaway_output", "the connection wrote more than 24 MiB ({} write calls): a write loop that does not advance", out.world.write_calls);
    vcheck!(!out.world.spun, "spin", "a single poll of the connection task made more than {} transport calls without returning (read {} bytes, eof reported: {})", SPIN_LIMIT, out.world.read_pos, out.world.eof_reported);
    for inv in &out.world.handler_log {
        if let Some(v) = &inv.violation { return Err(v.clone()); }
    }
    if let Some(p) = &out.task_panicked {
        vfail!("panic", "Token::run", "connection task panicked: {p}");
    }
    Ok(())
}

pub const C08_PROBES: &[&str] = &[
    "query_before_first_request", "query_between_requests", "query_during_params", "query_mid_stream", "query_after_stream_end",
    "suspension_points_checked", "closed_loop_burst_over_256_records",
];

/// C08 with a duplex handler: writer sub-tasks hold the output lock across Pending writes while a reader
/// sub-task is suspended in a read and the closed-loop peer sends a query.
pub fn c08_duplex(cx: &mut Ctx) -> VResult {
    c08_mode(cx, HandlerMode::Writers)
}

/// C08: closed-loop peer, strict executor (no spurious polls).
pub fn c08(cx: &mut Ctx) -> VResult {
    c08_mode(cx, HandlerMode::Seq)
}

/// C08, first sentence for a peer that keeps sending behind a query: bursts of whole records, each burst
/// followed by a wait for every reply owed so far. Whenever the task suspends on the transport read having
/// read a whole number of records, the replies for all of them are in the log.
pub fn c08_bursts(cx: &mut Ctx) -> VResult {
    c08_any(cx, HandlerMode::Seq, true)
}

fn c08_mode(cx: &mut Ctx, hmode: HandlerMode) -> VResult {
    c08_any(cx, hmode, false)
}

fn c08_any(cx: &mut Ctx, hmode: HandlerMode, burst: bool) -> VResult {
    cx.declare(F_TRANSPORT, P_BASE);
    cx.declare(&["peer_withhold"], C08_PROBES);
    let o = PlanOpts { max_reqs: 3, noise: 2 + cx.ch.pick(4), closed_loop: true, abort: false, small_buf_bias: cx.ch.chance(1, 2), force_keep: false, either_noise: false, pipelined: false, burst };
    let plan = gen_plan(cx, &o);
    note_plan(cx, &plan);
    for r in plan.replies.iter().filter(|r| !reply_is_end(r)) {
        let pos = r.rec_start;
        let phase = plan.reqs.iter().enumerate().find_map(|(i, rp)| {
            if pos < rp.start { None }
            else if pos < rp.info.end { Some(if i == 0 && pos < first_begin(&plan, rp) { "query_before_first_request" } else if pos < first_begin(&plan, rp) { "query_between_requests" } else { "query_during_params" }) }
            else if pos < rp.end { let last_stop = rp.sm.stop.iter().flatten().max().copied().unwrap_or(rp.info.end); Some(if pos < last_stop { "query_mid_stream" } else { "query_after_stream_end" }) }
            else { None }
        });
        if let Some(p) = phase { cx.probe(p); }
    }
    let knobs = gen_knobs(cx, false, plan.wire.len());
    let inner = take_cx(cx);
    let triggers: Vec<usize> = plan.replies.iter().filter(|r| !reply_is_end(r)).map(|r| r.rec_end).collect();
    let mut out = run_conn_with(inner, &plan, knobs, &ConnOpts { mode: hmode, rfault: RFault::None, wfault: WFault::None, shutdown: None, strict_no_spurious: true, shutdown_in_read: None }, |w| {
        w.owed_triggers = triggers.clone();
        if burst {
            let mut b = vec![0usize];
            let mut p = 0usize;
            while p + 8 <= plan.wire.len() {
                p += 8 + usize::from(u16::from_be_bytes([plan.wire[p + 4], plan.wire[p + 5]])) + usize::from(plan.wire[p + 6]);
                b.push(p);
            }
            w.rec_bounds = b;
        }
    });
    give_back(cx, &mut out);
    cx.nontrivial |= !triggers.is_empty();
    handler_violations(&out)?;
    let w = &out.world;
    if let Some((site, detail)) = &w.suspend_violation {
        vfail!("c08_suspended_owing_reply", site, "{detail}");
    }
    // the wait-for cycle itself
    if !out.task_done && out.end == "quiescent" {
        let peer_waiting = w.next_seg < w.segs.len() && matches!(w.segs[w.next_seg].gate, Gate::AfterReplies(_));
        if peer_waiting && w.read_waker.is_some() {
            let site = if w.handler_log.iter().any(|h| !h.finished) { "handler_blocked_in_read" } else { "between_requests" };
            vfail!("c08_deadlock", site, "no runnable task: the connection task waits for input, the peer waits for reply #{} ({} in the log)", w.replies_seen + 1, w.replies_seen);
        }
    }
    check_termination(&out, &plan, "c08")?;
    check_history(&out, &plan, false, "c08")?;
    check_replies(&out, &plan, out.world.read_pos, false, "c08")?;
    Ok(())
}

fn first_begin(plan: &Plan, rp: &ReqPlan) -> usize {
    // offset of the BeginRequest record that opens rp: the last BEGIN(id) header before info.end
    let mut p = rp.start;
    let w = &plan.wire;
    let mut found = rp.start;
    while p + 8 <= rp.info.end {
        let cl = usize::from(u16::from_be_bytes([w[p + 4], w[p + 5]]));
        if w[p + 1] == BEGIN && u16::from_be_bytes([w[p + 2], w[p + 3]]) == rp.id { found = p; }
        p += 8 + cl + usize::from(w[p + 6]);
    }
    found
}


pub const C09_PROBES: &[&str] = &["stream_advanced_between_polls_of_a_read", "async_reselect_current", "vectored_read", "writeable_true_sampled", "writeable_false_sampled", "eof_observed", "filter_role"];

pub const C09D_PROBES: &[&str] = &["direct_later_stream_preselected", "direct_lookahead_in_sync_parser", "direct_filter_role", "writeable_true_sampled", "writeable_false_sampled"];

/// C09, the other construction route: the caller puts the request together by hand - the sync request parser over
/// the preamble (with or without look-ahead), `into_stream_parser()`, optionally the later stream selected on the
/// sync parser already - and hands it to `Request::new`. Reads and output gating obey the same statement.
pub fn c09_direct(cx: &mut Ctx) -> VResult {
    cx.declare(F_TRANSPORT, P_BASE);
    cx.declare(F_SPURIOUS, &[]);
    cx.declare(&[], C09D_PROBES);
    // no management records: on this route their replies are the caller's business
    let o = PlanOpts { max_reqs: 1, noise: 0, closed_loop: false, abort: false, small_buf_bias: cx.ch.chance(1, 2), force_keep: false, either_noise: false, pipelined: false, burst: false };
    let plan = gen_plan(cx, &o);
    note_plan(cx, &plan);
    let knobs = gen_knobs(cx, true, plan.wire.len());
    let rp0 = &plan.reqs[0];
    let streams = role_streams(rp0.role);
    if rp0.role == FILTER { cx.probe("direct_filter_role"); }
    let cfg: &'static fastcgi_server::Config = Box::leak(Box::new(config(plan.bufsize, plan.max_conns)));
    let mut parser = fastcgi_server::parser::request::Parser::new(cfg);
    let wire = &plan.wire;
    let lookahead = cx.ch.chance(1, 2);
    let limit = if lookahead { wire.len() } else { rp0.info.end };
    let mut pos = 0usize;
    let mut replies = 0usize;
    loop {
        let space = parser.input_buffer().len();
        let k = space.min(limit - pos).min(if cx.ch.chance(1, 3) { cx.ch.range(1, 40) } else { usize::MAX });
        if k == 0 { panic!("harness: sync part of the direct route cannot make progress (pos {pos}, limit {limit}, space {space})"); }
        parser.input_buffer()[..k].copy_from_slice(&wire[pos..pos + k]);
        pos += k;
        let st = parser.parse(k);
        replies += st.output.len();
        if st.done { break; }
    }
    assert!(replies == 0, "harness: plan without management records produced replies");
    if pos > rp0.info.end { cx.probe("direct_lookahead_in_sync_parser"); }
    let mut sp = match guard(move || parser.into_stream_parser()) {
        Ok(Ok(sp)) => sp,
        Ok(Err(e)) => vfail!("c01_result", "", "into_stream_parser failed on the direct route: {e:?}"),
        Err(p) => vfail!("panic", "into_stream_parser", "{p}"),
    };
    let preselect = streams.len() == 2 && cx.ch.chance(1, 2);
    if preselect {
        let t = RecordType::try_from(streams[1]).expect("type");
        if let Err(e) = sp.set_stream(Some(t)) { vfail!("c18_selection", "", "legal set_stream({t:?}) on the sync parser failed: {e:?}"); }
        cx.probe("direct_later_stream_preselected");
    }
    cx.nontrivial = true;
    let inner = take_cx(cx);
    let mut world = World::new(inner, knobs, plan.wire.clone(), vec![Seg { end: plan.wire.len(), gate: Gate::Open }]);
    world.sent = pos;
    world.avail = pos;
    world.read_pos = pos;
    world.preselected = preselect;
    let shared: Shared = std::sync::Arc::new(std::sync::Mutex::new(world));
    let mut ex = Exec::new(shared.clone());
    let sh2 = shared.clone();
    let fut = async move {
        let mut req = Request::new(sp, SimRead(sh2.clone()), SimWrite(sh2.clone()));
        let _ = handler_body(&mut req, sh2, HandlerMode::Readers).await;
    };
    ex.tasks.push(Task::new("conn", Box::pin(fut)));
    let end = match ex.run(&mut |_, _| Vec::new()) { RunEnd::Quiescent => "quiescent", _ => "step_cap" };
    let task_done = ex.tasks[0].done();
    let task_panicked = ex.tasks[0].panicked.clone();
    drop(ex);
    let world = {
        let mut g = lock(&shared);
        let dummy = World::new(Ctx::new(Chooser::replay(Vec::new()), false), knobs, Vec::new(), Vec::new());
        std::mem::replace(&mut *g, dummy)
    };
    let mut out = ConnOutcome { task_done, task_panicked, end, world, shutdown_done: false, shutdown_polls_pending_while_live: false, shutdown_ready_while_live: false };
    give_back(cx, &mut out);
    vcheck!(out.end == "quiescent", "hang", "step cap reached on the direct route");
    if let Some(p) = &out.task_panicked { vfail!("panic", "direct_request", "{p}"); }
    vcheck!(out.task_done, "c09_stalled", "the handler on the hand-built request never finished (suspended on read: {})", out.world.read_waker.is_some());
    handler_violations(&out)?;
    let rp = &plan.reqs[0];
    let n = streams.len();
    for inv in out.world.handler_log.iter().take(1) {
        for &(v, a, at) in &inv.writeable_samples {
            cx.probe(if v { "writeable_true_sampled" } else { "writeable_false_sampled" });
            if v {
                vcheck!(n <= 1 || a == n - 1, "c09_writeable_early", "hand-built request (role {}) reports writeable while the active stream index is {a} of {n}", rp.role);
                for j in 0..n.saturating_sub(1) {
                    let reached = rp.sm.stop[j].map_or(false, |s| s + 8 <= at);
                    vcheck!(reached, "c09_writeable_early", "hand-built request reports writeable after {at} input bytes, before the end of stream {} (at {:?}) was received", streams[j], rp.sm.stop[j]);
                }
            }
            if n <= 1 { vcheck!(v, "c09_writeable_late", "hand-built request with {n} input stream(s) is not writeable from the start"); }
        }
    }
    // handler input and output records (no epilogue on this route: the log simply stops)
    check_history_mode(&out, &plan, false, "c09", true, usize::MAX, true)?;
    Ok(())
}

/// C09: async read interfaces and output gating.
pub fn c09(cx: &mut Ctx) -> VResult {
    cx.declare(F_TRANSPORT, P_BASE);
    cx.declare(F_SPURIOUS, &["output_stream_refused", "async_rejected_selection", "early_advance_async"]);
    cx.declare(&[], C09_PROBES);
    let o = PlanOpts { max_reqs: 2, noise: cx.ch.pick(5), closed_loop: false, abort: false, small_buf_bias: cx.ch.chance(1, 2), force_keep: false, either_noise: false, pipelined: false, burst: false };
    let plan = gen_plan(cx, &o);
    note_plan(cx, &plan);
    let mut knobs = gen_knobs(cx, true, plan.wire.len());
    if knobs.write_pending == 0 && cx.ch.chance(1, 2) { knobs.write_pending = 4; }
    let inner = take_cx(cx);
    let mut out = run_conn(inner, &plan, knobs, &ConnOpts { mode: HandlerMode::Readers, rfault: RFault::None, wfault: WFault::None, shutdown: None, strict_no_spurious: false, shutdown_in_read: None });
    give_back(cx, &mut out);
    handler_violations(&out)?;
    for (i, inv) in out.world.handler_log.iter().enumerate() {
        let Some(rp) = plan.reqs.get(i) else { break };
        let n = role_streams(rp.role).len();
        if rp.role == FILTER { cx.probe("filter_role"); }
        if inv.eof.iter().any(|&e| e) { cx.probe("eof_observed"); }
        for &(v, a, at) in &inv.writeable_samples {
            cx.probe(if v { "writeable_true_sampled" } else { "writeable_false_sampled" });
            if v {
                vcheck!(n <= 1 || a == n - 1, "c09_writeable_early", "request {i} (role {}) reports writeable while the active stream index is {a} of {n}", rp.role);
                // the parser must have arrived at the final stream: every earlier stream's terminating
                // record (its empty record or the first record of a later stream) has been read
                for j in 0..n.saturating_sub(1) {
                    let reached = rp.sm.stop[j].map_or(false, |s| s + 8 <= at);
                    vcheck!(reached, "c09_writeable_early", "request {i} reports writeable after {at} input bytes, before the end of stream {} (at {:?}) was received", role_streams(rp.role)[j], rp.sm.stop[j]);
                }
            }
            if n <= 1 {
                vcheck!(v, "c09_writeable_late", "request {i} with {n} input stream(s) is not writeable from the start");
            }
        }
    }
    check_termination(&out, &plan, "c09")?;
    check_history(&out, &plan, false, "c09")?;
    check_replies(&out, &plan, out.world.read_pos, false, "c09")?;
    Ok(())
}

pub const C10_PROBES: &[&str] = &["failed_write_retried", "write_repolled_with_longer_buffer", "writers_2plus", "write_65535_capped", "zero_length_write", "reply_between_writer_records", "writer_poll_close", "writer_created_between_polls_of_a_read"];

/// C10: concurrent writers + reply flushing: complete, non-interleaved records.
pub fn c10(cx: &mut Ctx) -> VResult {
    cx.declare(F_TRANSPORT, P_BASE);
    cx.declare(F_SPURIOUS, &["reader_subtask"]);
    cx.declare(F_FLUSH, &[]);
    cx.declare(&["write_error"], &[]);
    cx.declare(&[], C10_PROBES);
    let o = PlanOpts { max_reqs: 2, noise: 1 + cx.ch.pick(5), closed_loop: false, abort: false, small_buf_bias: cx.ch.chance(1, 2), force_keep: false, either_noise: false, pipelined: false, burst: false };
    let plan = gen_plan(cx, &o);
    note_plan(cx, &plan);
    let mut knobs = gen_knobs(cx, true, plan.wire.len());
    if cx.ch.chance(1, 2) { knobs.write_pending = cx.ch.one_of(&[2u32, 6, 10]); }
    // extension with fault injection: one transient write error; writers retry the failed write, which per the
    // StreamWriter documentation continues the same record (the lock is kept across the error)
    let wfault = if cx.ch.chance(1, 3) { WFault::ErrAtCall(cx.ch.range(0, 60)) } else { WFault::None };
    let faulted = wfault != WFault::None;
    let inner = take_cx(cx);
    let mut out = run_conn_with(inner, &plan, knobs, &ConnOpts { mode: HandlerMode::Writers, rfault: RFault::None, wfault, shutdown: None, strict_no_spurious: false, shutdown_in_read: None }, |w| w.retry_failed_writes = true);
    give_back(cx, &mut out);
    handler_violations(&out)?;
    if faulted && out.world.write_failed_at.is_some() {
        // the error may also have hit a reply flush or the epilogue, which ends the connection: accept a
        // missing tail, but every complete record must still be right and nothing may interleave
        check_history_mode(&out, &plan, false, "c10", true, usize::MAX, true)?;
        check_replies(&out, &plan, out.world.read_pos, false, "c10")?;
        return Ok(());
    }
    for inv in &out.world.handler_log {
        let mut tags = std::collections::BTreeSet::new();
        for (s, d, n) in &inv.writes {
            if d.is_empty() { cx.probe("zero_length_write"); }
            if *n == 65535 { cx.probe("write_65535_capped"); }
            tags.insert((*s, d.first().copied().unwrap_or(0) & 0xf0));
        }
        if tags.len() >= 2 { cx.probe("writers_2plus"); }
    }
    // every record padded to a multiple of 8 with padding < 8; handler records carry the request id
    {
        let w = &out.world;
        let mut prev_handler = false;
        for r in &w.decoded {
            if r.rtype == STDOUT || r.rtype == STDERR {
                vcheck!(r.padding < 8 && (r.content.len() + usize::from(r.padding)) % 8 == 0, "c10_padding", "output record {} is not padded to a multiple of 8 with padding below 8", r.short());
                prev_handler = true;
            } else if (r.rtype == GETVALUESRESULT || r.rtype == UNKNOWN) && prev_handler {
                cx.probe("reply_between_writer_records");
            }
        }
    }
    check_termination(&out, &plan, "c10")?;
    check_history(&out, &plan, false, "c10")?;
    check_replies(&out, &plan, out.world.read_pos, false, "c10")?;
    Ok(())
}

pub const C11_PROBES: &[&str] = &["read_without_input_stream", "error_propagated_with_context", "abort_seen_by_handler", "abort_swallowed_own_status", "abort_not_reached", "abort_during_params_async", "request_after_abort_served", "foreign_abort_inserted"];

/// C11 (async part): abort in the stream phase.
pub fn c11(cx: &mut Ctx) -> VResult {
    cx.declare(F_TRANSPORT, P_BASE);
    cx.declare(F_SPURIOUS, &["handler_swallowed_error"]);
    cx.declare(&[], C11_PROBES);
    let o = PlanOpts { max_reqs: 3, noise: cx.ch.pick(3), closed_loop: false, abort: true, small_buf_bias: cx.ch.chance(1, 2), force_keep: false, either_noise: false, pipelined: false, burst: false };
    let plan = gen_plan(cx, &o);
    note_plan(cx, &plan);
    let knobs = gen_knobs(cx, true, plan.wire.len());
    let inner = take_cx(cx);
    let mut out = run_conn(inner, &plan, knobs, &ConnOpts { mode: HandlerMode::Seq, rfault: RFault::None, wfault: WFault::None, shutdown: None, strict_no_spurious: false, shutdown_in_read: None });
    give_back(cx, &mut out);
    handler_violations(&out)?;
    for (i, inv) in out.world.handler_log.iter().enumerate() {
        let Some(rp) = plan.reqs.get(i) else { break };
        if !rp.has_abort { continue; }
        let saw = inv.errors.iter().any(|(k, _, _)| k == "ConnectionAborted");
        if saw {
            cx.probe("abort_seen_by_handler");
            if inv.status.as_deref().map_or(false, |s| !s.starts_with("err:")) { cx.probe("abort_swallowed_own_status"); }
        } else {
            cx.probe("abort_not_reached");
        }
        if i + 1 < out.world.handler_log.len() { cx.probe("request_after_abort_served"); }
        // exactly one EndRequest for the aborted request's id between its start and the next request
        let ends = out.world.decoded.iter().filter(|r| r.rtype == END && r.id == rp.id).count();
        let same_id_reqs = plan.reqs.iter().take(out.world.handler_log.len()).filter(|q| q.id == rp.id).count();
        let noise_ends = plan.replies.iter().filter(|r| reply_is_end(r) && r.bytes[2..4] == rp.id.to_be_bytes()).count();
        if inv.status.as_deref().and_then(status_to_end).is_some() {
            vcheck!(ends <= same_id_reqs + noise_ends, "c11_end_request_count", "{ends} EndRequest records for id {} ({} requests with that id, {noise_ends} protocol-level replies)", rp.id, same_id_reqs);
        }
    }
    check_termination(&out, &plan, "c11")?;
    check_history(&out, &plan, true, "c11")?;
    check_replies(&out, &plan, out.world.read_pos, false, "c11")?;
    Ok(())
}

pub const C12_PROBES: &[&str] = &["fault_points_eof", "fault_points_read_err", "fault_points_write_err", "fault_points_write_zero", "fault_points_flush_err", "sibling_subtasks_dropped_on_error", "handler_got_unexpected_eof", "handler_got_injected_error", "fault_in_preamble", "fault_in_handler", "fault_in_close"];

/// C12: fault enumeration. One seeded script; then EOF at every input offset, a read error at every
/// read call, a write error and a zero-length write at every write call, each in a fresh run that
/// replays the script's choice list.
pub fn c12(cx: &mut Ctx) -> VResult {
    cx.declare(F_TRANSPORT, P_BASE);
    cx.declare(F_INJECT, &[]);
    cx.declare(&[], C12_PROBES);
    // history: a third of the scripts contain a request the client aborts (during Params or in the stream phase), so
    // faults also land after an abort was signalled to the handler
    let o = PlanOpts { max_reqs: 2, noise: cx.ch.pick(3), closed_loop: false, abort: cx.ch.chance(1, 3), small_buf_bias: cx.ch.chance(1, 2), force_keep: false, either_noise: false, pipelined: false, burst: false };
    let plan = gen_plan(cx, &o);
    note_plan(cx, &plan);
    if plan.wire.len() > 1500 { 
        // keep the enumeration affordable: long scripts are sampled at a stride below
    }
    let knobs = gen_knobs(cx, false, plan.wire.len());
    let rkind = match cx.ch.pick(4) { 0 => io::ErrorKind::ConnectionReset, 1 => io::ErrorKind::Interrupted, 2 => io::ErrorKind::TimedOut, _ => io::ErrorKind::Other };
    // fault-free reference run, recording the choice list of the run itself
    let hmode = match cx.ch.weighted(&[5, 2, 1]) { 0 => HandlerMode::Seq, 1 => HandlerMode::Readers, _ => HandlerMode::Writers };
    // (an abort signal ends a handler at once; with concurrent writer sub-tasks it would abandon a record half-way,
    // which no library can repair - scripts with aborts use the sequential handlers)
    let hmode = if hmode == HandlerMode::Writers && plan.reqs.iter().any(|r| r.has_abort) { HandlerMode::Seq } else { hmode };
    let start = cx.ch.log.len();
    let inner = take_cx(cx);
    let copts = |rf, wf| ConnOpts { mode: hmode, rfault: rf, wfault: wf, shutdown: None, strict_no_spurious: true, shutdown_in_read: None };
    let mut out = run_conn_with(inner, &plan, knobs, &copts(RFault::None, WFault::None), |w| w.force_propagate = true);
    give_back(cx, &mut out);
    handler_violations(&out)?;
    let aborts = plan.reqs.iter().any(|r| r.has_abort);
    check_termination(&out, &plan, "c12_baseline")?;
    check_history(&out, &plan, aborts, "c12_baseline")?;
    let script: Vec<u32> = cx.ch.log[start..].to_vec();
    let n_in = plan.wire.len();
    let n_reads = out.world.read_calls;
    let n_writes = out.world.write_calls;
    let n_flushes = out.world.flush_calls;
    let stride = |n: usize| -> usize { (n / 250).max(1) };
    let mut faults: Vec<(RFault, WFault)> = Vec::new();
    for o in (0..=n_in).step_by(stride(n_in)) { faults.push((RFault::EofAt(o), WFault::None)); }
    for c in (0..n_reads + 1).step_by(stride(n_reads)) { faults.push((RFault::ErrAtCall(c), WFault::None)); }
    for c in (0..n_writes + 1).step_by(stride(n_writes)) { faults.push((RFault::None, WFault::ErrAtCall(c))); faults.push((RFault::None, WFault::ZeroAtCall(c))); }
    for c in (0..n_flushes).step_by(stride(n_flushes)) { faults.push((RFault::None, WFault::FlushErrAtCall(c))); }
    cx.nontrivial = true;
    for (rf, wf) in faults {
        let mut icx = Ctx::new(Chooser::replay(script.clone()), cx.trace);
        icx.ch.keep_log = false;
        let label = format!("{rf:?}/{wf:?}");
        if cx.trace { cx.events.push(format!("--- fault run {label}")); }
        let fo = run_conn_with(icx, &plan, knobs, &copts(rf, wf), |w| { w.force_propagate = true; w.read_err_kind = rkind; });
        // merge statistics
        cx.st.merge(&fo.world.cx.st);
        cx.states.extend(fo.world.cx.states.iter().copied());
        cx.digest = fnv_u64(fo.world.cx.digest, cx.digest);
        cx.skeleton = fnv_u64(fo.world.cx.skeleton, cx.skeleton);
        if cx.trace { cx.events.extend(fo.world.cx.events.iter().map(|e| format!("    {e}"))); }
        match (rf, wf) {
            (RFault::EofAt(_), _) => cx.probe("fault_points_eof"),
            (RFault::ErrAtCall(_), _) => cx.probe("fault_points_read_err"),
            (_, WFault::ErrAtCall(_)) => cx.probe("fault_points_write_err"),
            (_, WFault::FlushErrAtCall(_)) => cx.probe("fault_points_flush_err"),
            _ => cx.probe("fault_points_write_zero"),
        }
        let w = &fo.world;
        let fired = w.cx.st.faults.get("eof_injected").copied().unwrap_or(0) + w.cx.st.faults.get("read_error").copied().unwrap_or(0)
            + w.cx.st.faults.get("write_error").copied().unwrap_or(0) + w.cx.st.faults.get("zero_write").copied().unwrap_or(0) + w.cx.st.faults.get("flush_error").copied().unwrap_or(0);
        if fired > 0 {
            let phase = if w.handler_log.iter().any(|h| !h.finished) || w.handler_log.last().map_or(false, |h| h.status.as_deref().map_or(false, |s| s.starts_with("err:"))) { "fault_in_handler" } else if w.handler_log.len() > w.end_requests { "fault_in_close" } else { "fault_in_preamble" };
            cx.probe(phase);
        }
        let site = match (rf, wf) { (RFault::EofAt(_), _) => "eof", (RFault::ErrAtCall(_), _) => "read_error", (_, WFault::ErrAtCall(_)) => "write_error", (_, WFault::FlushErrAtCall(_)) => "flush_error", _ => "zero_write" };
        // 1. termination without panic or spinning
        vcheck!(!w.spun, "c12_spin", "fault {label}: a single poll of the connection task made more than {} transport calls without returning", SPIN_LIMIT);
        vcheck!(!w.flooded, "runaway_output", "fault {label}: the connection wrote more than 24 MiB");
        if let Some(p) = &fo.task_panicked { vfail!("c12_panic", site, "fault {label}: connection task panicked: {p}"); }
        for inv in &w.handler_log { if let Some(v) = &inv.violation { return Err(Violation::new(&v.oracle, site, format!("fault {label}: {}", v.detail))); } }
        vcheck!(fo.end == "quiescent", "c12_spin", "fault {label}: step cap reached");
        if fired > 0 || matches!(rf, RFault::EofAt(_)) {
            if !fo.task_done {
                vfail!("c12_task_not_terminated", site, "fault {label}: the transport failed / ended but the connection task is still pending (read {} bytes, handler invocations {})", w.read_pos, w.handler_log.len());
            }
        }
        if w.read_error_fired {
            vcheck!(w.reads_after_read_error == 0, "c12_read_after_error", "fault {label} ({rkind:?}): {} transport reads after the transport reported an error", w.reads_after_read_error);
        }
        // 2. no handler for a request whose preamble did not arrive completely
        if let RFault::EofAt(o) = rf {
            let complete = plan.reqs.iter().filter(|r| r.info.end <= o).count();
            vcheck!(w.handler_log.len() <= complete, "c12_handler_on_partial_preamble", "EOF at {o}: {} handler invocations but only {complete} preambles arrived completely", w.handler_log.len());
        }
        // 3. handler-visible results
        let limit = if let RFault::EofAt(o) = rf { o } else { usize::MAX };
        for inv in &w.handler_log {
            for (k, _, _) in &inv.errors {
                if k == "UnexpectedEof" { cx.probe("handler_got_unexpected_eof"); }
                if k == "ConnectionReset" || k == "BrokenPipe" || k == "WriteZero" || k == "Interrupted" || k == "TimedOut" || k == "Other" { cx.probe("handler_got_injected_error"); }
            }
        }
        // 4. nothing written after a failed write (handlers propagate)
        if w.write_failed_at.is_some() {
            vcheck!(w.writes_after_failure == 0, "c12_write_after_failure", "fault {label}: {} write calls after the failed write", w.writes_after_failure);
        }
        // 5. the log is a prefix of a well-formed record sequence consistent with the handler log
        let r = check_history_mode(&fo, &plan, aborts, "c12", true, limit, true).and_then(|()| check_replies(&fo, &plan, w.read_pos, false, "c12"));
        if let Err(v) = r {
            return Err(Violation::new(&v.oracle, site, format!("fault {label}: {}", v.detail)));
        }
    }
    Ok(())
}

pub const C14_PROBES: &[&str] = &["pipelining_client", "client_frozen_at_shutdown", "shutdown_inside_a_transport_read", "reply_cut_by_shutdown", "idle_at_shutdown", "handler_running_at_shutdown", "shutdown_future_ready_after_conn", "conn_stopped_by_shutdown"];

/// C14 (connection side): graceful shutdown at an arbitrary scheduling step.
pub fn c14_conn(cx: &mut Ctx) -> VResult {
    cx.declare(F_TRANSPORT, P_BASE);
    cx.declare(&["spurious_poll", "shutdown_requested"], &["shutdown_during_handler", "shutdown_before_first_read", "shutdown_between_or_preamble"]);
    cx.declare(&[], C14_PROBES);
    // history: in a quarter of the runs the client pipelines (requests back to back, several of them in one read), so
    // the connection that is told to stop has served requests straight from its buffer before
    let pipelined = cx.ch.chance(1, 4);
    let o = PlanOpts { max_reqs: 3, noise: cx.ch.pick(3), closed_loop: false, abort: false, small_buf_bias: cx.ch.chance(1, 3), force_keep: true, either_noise: true, pipelined, burst: false };
    let plan = gen_plan(cx, &o);
    note_plan(cx, &plan);
    if pipelined && plan.reqs.len() >= 2 { cx.probe("pipelining_client"); }
    let knobs = gen_knobs(cx, true, plan.wire.len());
    let after = match cx.ch.weighted(&[2, 3, 3, 2, 1]) { 0 => 0, 1 => cx.ch.range(1, 20), 2 => cx.ch.range(20, 200), 3 => cx.ch.range(200, 2000), _ => cx.ch.range(2000, 20000) } as u64;
    // a third of the runs request shutdown from inside a transport read call - the connection task is in the middle of
    // a poll, as it would be when another thread calls Runner::shutdown() - instead of between two polls
    let in_read = if cx.ch.chance(1, 3) { Some(match cx.ch.weighted(&[3, 3, 2]) { 0 => 0, 1 => cx.ch.range(1, 6), _ => cx.ch.range(6, 60) }) } else { None };
    // in half of the runs the client does nothing any more once shutdown was requested while the connection is idle
    let cx_freeze = cx.ch.chance(1, 2);
    let inner = take_cx(cx);
    let freeze = cx_freeze;
    let mut out = run_conn_with(inner, &plan, knobs, &ConnOpts { mode: HandlerMode::Seq, rfault: RFault::None, wfault: WFault::None, shutdown: Some(if in_read.is_some() { u64::MAX / 2 } else { after }), strict_no_spurious: false, shutdown_in_read: in_read }, |w| { w.freeze_if_idle = freeze; w.read_everything = pipelined; });
    give_back(cx, &mut out);
    handler_violations(&out)?;
    let w = &out.world;
    vcheck!(out.end == "quiescent", "hang", "step cap reached");
    vcheck!(w.shutdown_requested_at_step.is_some(), "harness_model", "shutdown was never requested");
    for (i, inv) in w.handler_log.iter().enumerate() {
        vcheck!(!inv.started_after_shutdown, "c14_handler_started_after_shutdown", "handler {i} began in a scheduling step of the connection task that started after shutdown was requested");
        vcheck!(inv.finished, "c14_request_not_completed", "handler {i} was running at shutdown but never finished");
    }
    vcheck!(out.task_done, "c14_connection_not_stopped", "shutdown requested but the connection task never finished (suspended on read: {})", w.read_waker.is_some());
    if w.idle_at_shutdown {
        cx.probe("idle_at_shutdown");
        vcheck!(w.reads_after_mark == 0, "c14_idle_read_after_shutdown", "idle connection performed {} transport reads after shutdown was requested", w.reads_after_mark);
    } else {
        cx.probe("handler_running_at_shutdown");
    }
    vcheck!(!out.shutdown_ready_while_live, "c14_shutdown_ready_early", "shutdown future completed while the connection token was still alive");
    vcheck!(out.shutdown_done, "c14_shutdown_not_woken", "last token dropped but the shutdown future's task was not woken / not ready");
    cx.probe("shutdown_future_ready_after_conn");
    let served_all = w.handler_log.len() == plan.reqs.iter().scan(true, |open, r| { let o = *open; *open = *open && r.flags & 1 == 1; if o { Some(()) } else { None } }).count();
    if !served_all { cx.probe("conn_stopped_by_shutdown"); }
    // requests that started complete normally, including their EndRequest. A management reply that the
    // request parser was still writing when the idle connection was told to stop may be cut short
    // (the statement is silent on it); nothing else may be missing.
    let partial = w.log.len() - w.decoded_upto;
    if partial > 0 {
        vcheck!(w.idle_at_shutdown || w.handler_log.iter().all(|h| h.finished), "c14_log_wellformed", "partial record at the end of the log although a request was in progress");
        let t = w.log[w.decoded_upto..].get(1).copied();
        vcheck!(t.map_or(true, |t| t == GETVALUESRESULT || t == UNKNOWN), "c14_log_wellformed", "partial record of type {t:?} at the end of the log");
        cx.probe("reply_cut_by_shutdown");
    }
    check_history_mode(&out, &plan, false, "c14", false, usize::MAX, true)?;
    check_replies(&out, &plan, out.world.read_pos, false, "c14")?;
    Ok(())
}

pub const C12H_PROBES: &[&str] = &["hostile_handler_invoked", "hostile_handler_got_invalid_data", "hostile_handler_got_unexpected_eof", "hostile_conn_closed_before_eof", "hostile_no_handler", "hostile_log_ends_in_cut_record"];

/// C12, hostile traffic: the incoming stream is a compliant script passed through the structured mutation
/// operators of C03 (or random bytes) and ends in end-of-file. Whatever the bytes are, the connection task
/// terminates without panicking or spinning and what it wrote is a well-formed record sequence.
pub fn c12_hostile(cx: &mut Ctx) -> VResult {
    cx.declare(F_TRANSPORT, P_BASE);
    cx.declare(crate::d1c03::C03_FAULTS, C12H_PROBES);
    let o = PlanOpts { max_reqs: 3, noise: cx.ch.pick(3), closed_loop: false, abort: cx.ch.chance(1, 4), small_buf_bias: cx.ch.chance(1, 2), force_keep: false, either_noise: false, pipelined: false, burst: false };
    let mut plan = gen_plan(cx, &o);
    let wire = if cx.ch.chance(1, 8) {
        cx.fault("mut_random_bytes");
        let l = cx.ch.range(0, 300);
        let mut w: Vec<u8> = (0..l).map(|_| cx.ch.byte()).collect();
        if l >= 2 && cx.ch.chance(2, 3) { w[0] = 1; w[1] = cx.ch.range(0, 12) as u8; }
        if cx.ch.chance(1, 2) { let mut v = plan.wire[..plan.reqs[0].info.end].to_vec(); v.extend(w); v } else { w }
    } else {
        let (recs, used) = wire::decode_all(&plan.wire);
        assert!(used == plan.wire.len(), "harness: plan wire decodes completely");
        crate::d1c03::mutate(cx, &recs)
    };
    // everything is sent without waiting for anything (the client is not compliant anyway), then the client closes
    let mut cuts = vec![wire.len()];
    for _ in 0..cx.ch.pick(3) { cuts.push(cx.ch.range(0, wire.len())); }
    cuts.sort();
    cuts.dedup();
    plan.segs = cuts.into_iter().map(|c| Seg { end: c, gate: Gate::Open }).collect();
    plan.wire = wire;
    if cx.want_sample { cx.sample = Some(format!("bufsize={} hostile wire={}", plan.bufsize, hex(&plan.wire[..plan.wire.len().min(400)]))); }
    cx.nontrivial = true;
    let knobs = gen_knobs(cx, true, plan.wire.len());
    let hmode = if cx.ch.chance(1, 4) { HandlerMode::Readers } else { HandlerMode::Seq };
    let inner = take_cx(cx);
    let mut out = run_conn(inner, &plan, knobs, &ConnOpts { mode: hmode, rfault: RFault::None, wfault: WFault::None, shutdown: None, strict_no_spurious: false, shutdown_in_read: None });
    give_back(cx, &mut out);
    let w = &out.world;
    vcheck!(!w.spun, "c12_spin", "hostile traffic: a single poll of the connection task made more than {} transport calls without returning", SPIN_LIMIT);
    vcheck!(!w.flooded, "runaway_output", "hostile traffic: the connection wrote more than 24 MiB");
    if let Some(p) = &out.task_panicked { vfail!("c12_panic", "hostile_traffic", "connection task panicked: {p}"); }
    for inv in &w.handler_log {
        if let Some(v) = &inv.violation { if v.oracle == "panic" { return Err(v.clone()); } }
        for (k, _, _) in &inv.errors {
            if k == "InvalidData" { cx.probe("hostile_handler_got_invalid_data"); }
            if k == "UnexpectedEof" { cx.probe("hostile_handler_got_unexpected_eof"); }
        }
    }
    cx.probe(if w.handler_log.is_empty() { "hostile_no_handler" } else { "hostile_handler_invoked" });
    vcheck!(out.end == "quiescent", "c12_spin", "hostile traffic: step cap reached, the connection task keeps running");
    vcheck!(out.task_done, "c12_task_not_terminated", "hostile traffic: the client sent {} bytes and closed, {} were read, but the connection task is still pending (handler invocations {})", w.sent, w.read_pos, w.handler_log.len());
    if !w.eof_reported { cx.probe("hostile_conn_closed_before_eof"); }
    // everything written is a sequence of complete server-to-client records
    // ("a prefix of a well-formed record sequence": a connection given up on bad input or on end-of-file inside a
    // record may leave the reply it was writing unfinished, so one cut record at the very end is accepted)
    if w.decoded_upto < w.log.len() {
        let tail = &w.log[w.decoded_upto..];
        cx.probe("hostile_log_ends_in_cut_record");
        vcheck!(tail[0] == 1 && (tail.len() < 2 || matches!(tail[1], END | STDOUT | STDERR | GETVALUESRESULT | UNKNOWN)), "c12_log_wellformed", "hostile traffic: the cut record at the end of the log does not start like a server record: {}", hex(tail));
    }
    for r in &w.decoded {
        vcheck!(r.version == 1 && matches!(r.rtype, END | STDOUT | STDERR | GETVALUESRESULT | UNKNOWN), "c12_log_wellformed", "hostile traffic: the server wrote a record it never sends: {}", r.short());
    }
    // each handler invocation is answered by at most one EndRequest with RequestComplete.. (ids may repeat): count only
    let completes = w.decoded.iter().filter(|r| r.rtype == END && r.content.len() == 8 && r.content[4] == ST_COMPLETE && r.id != 0).count();
    let _ = completes;
    Ok(())
}

pub const C05A_PROBES: &[&str] = &["handler_read_to_final_eof", "pipelined_next_request_buffered_at_close", "pipelined_requests_3plus"];

/// C05 in the async layer: a client that sends k requests back to back (no waiting for EndRequest) over one
/// connection whose handlers read their final input stream to its end (earlier streams read, partly read or
/// skipped): the hand-off between the requests loses, duplicates and reorders nothing, so all k requests are
/// served with the environments, stream contents and outputs of k separate connections.
pub fn c05_async(cx: &mut Ctx) -> VResult {
    cx.declare(F_TRANSPORT, P_BASE);
    cx.declare(F_SPURIOUS, C05A_PROBES);
    let o = PlanOpts { max_reqs: 4, noise: cx.ch.pick(4), closed_loop: false, abort: false, small_buf_bias: cx.ch.chance(1, 2), force_keep: false, either_noise: true, pipelined: true, burst: false };
    let plan = gen_plan(cx, &o);
    note_plan(cx, &plan);
    if plan.reqs.len() >= 3 { cx.probe("pipelined_requests_3plus"); }
    let knobs = gen_knobs(cx, true, plan.wire.len());
    let hmode = if cx.ch.chance(1, 3) { HandlerMode::Readers } else { HandlerMode::Seq };
    let inner = take_cx(cx);
    let mut out = run_conn_with(inner, &plan, knobs, &ConnOpts { mode: hmode, rfault: RFault::None, wfault: WFault::None, shutdown: None, strict_no_spurious: false, shutdown_in_read: None }, |w| w.read_everything = true);
    give_back(cx, &mut out);
    for (i, inv) in out.world.handler_log.iter().enumerate() {
        if let Some(rp) = plan.reqs.get(i) { if inv.finished && inv.read_pos_at_end > rp.end { cx.probe("pipelined_next_request_buffered_at_close"); } }
    }
    handler_violations(&out)?;
    check_termination(&out, &plan, "c05_async")?;
    check_history(&out, &plan, false, "c05_async")?;
    check_replies(&out, &plan, out.world.read_pos, false, "c05_async")?;
    Ok(())
}
