//! fcgisim — deterministic simulation with fault injection for fastcgi-server.
//!
//!   fcgisim check <Cxx> [--tier quick|thorough] [--verif-dir DIR] [--workers N] [--scale F]
//!   fcgisim replay <file>
//!   fcgisim selftest-determinism [--n N]
//!   fcgisim one <Cxx> <scenario> <run-index>      (debug: trace a single run)

mod batch;
mod core;
mod d1c03;
mod d1req;
mod d1stream;
mod d2;
mod d2sema;
mod d3;
mod exec;
mod d4;
mod gen;
mod json;
mod miri;
mod model;
mod props;
mod wire;

use batch::*;
use std::path::PathBuf;

fn arg_val(args: &[String], name: &str) -> Option<String> {
    args.iter().position(|a| a == name).and_then(|i| args.get(i + 1).cloned())
}

fn seed_from_env() -> u64 {
    match std::env::var("VERIF_SEED") {
        Ok(s) if !s.trim().is_empty() => {
            let s = s.trim();
            let v = if let Some(h) = s.strip_prefix("0x") { u64::from_str_radix(h, 16).ok() } else { s.parse::<u64>().ok() };
            match v {
                Some(v) => v & 0x7fff_ffff_ffff_ffff,
                None => core::fnv(s.as_bytes(), 0xcbf2_9ce4_8422_2325) & 0x7fff_ffff_ffff_ffff,
            }
        }
        _ => core::DEFAULT_SEED,
    }
}

fn main() {
    let args: Vec<String> = std::env::args().skip(1).collect();
    let defs = props::all();
    let verif_dir = PathBuf::from(arg_val(&args, "--verif-dir").unwrap_or_else(|| ".".into()));
    let workers = arg_val(&args, "--workers").and_then(|s| s.parse().ok())
        .unwrap_or_else(|| std::thread::available_parallelism().map_or(8, |n| n.get()));
    core::install_panic_hook();
    match args.first().map(String::as_str) {
        Some("check") => {
            let id = args.get(1).cloned().unwrap_or_default();
            let tier = match arg_val(&args, "--tier").or_else(|| std::env::var("VERIF_TIER").ok()).as_deref() {
                Some("thorough") => Tier::Thorough,
                _ => Tier::Quick,
            };
            let Some(def) = defs.iter().find(|d| d.id == id) else {
                eprintln!("harness error: no check for property {id}");
                std::process::exit(2);
            };
            let scale = arg_val(&args, "--scale").and_then(|s| s.parse().ok()).unwrap_or(1.0);
            // --seed-salt N: a different batch from the same VERIF_SEED (the secondary pass explores other runs than the main pass)
            let salt: u64 = arg_val(&args, "--seed-salt").and_then(|s| s.parse().ok()).unwrap_or(0);
            let seed = if salt == 0 { seed_from_env() } else { core::mix(seed_from_env(), "seed-salt", salt) & 0x7fff_ffff_ffff_ffff };
            let cfg = BatchCfg { seed, tier, verif_dir, workers, scale, write_evidence: !args.iter().any(|a| a == "--no-evidence") };
            std::process::exit(run_property(def, &cfg));
        }
        Some("replay") => {
            let p = PathBuf::from(args.get(1).cloned().unwrap_or_default());
            std::process::exit(replay_file(&defs, &p));
        }
        Some("one") => {
            let id = args.get(1).cloned().unwrap_or_default();
            let sc = args.get(2).cloned().unwrap_or_default();
            let idx: u64 = args.get(3).and_then(|s| s.parse().ok()).unwrap_or(0);
            let def = defs.iter().find(|d| d.id == id).expect("property");
            let scen = def.scens.iter().find(|s| s.name == sc).expect("scenario");
            let seed = core::mix(seed_from_env(), &format!("{}/{}", def.id, scen.name), idx);
            let out = exec(scen.f, core::Chooser::record(seed), true, true);
            for e in &out.cx.events { println!("  {e}"); }
            println!("sample: {:?}", out.cx.sample);
            println!("result: {:?} harness_error: {:?} digest {:016x}", out.result, out.harness_error, out.cx.digest);
        }
        Some("selftest-determinism") => {
            let n: u64 = arg_val(&args, "--n").and_then(|s| s.parse().ok()).unwrap_or(200);
            std::process::exit(selftest(&defs, n, workers));
        }
        _ => {
            eprintln!("usage: fcgisim check <Cxx> [--tier quick|thorough] | replay <file> | selftest-determinism [--n N]");
            std::process::exit(2);
        }
    }
}

/// Prints, for N seeds per scenario, the digest of the full event log. The wrapper script runs this
/// twice in separate processes and at two worker counts and diffs the output.
fn selftest(defs: &[PropDef], n: u64, workers: usize) -> i32 {
    use std::sync::Mutex;
    let seed = seed_from_env();
    let lines = Mutex::new(Vec::new());
    let mut jobs = Vec::new();
    for def in defs {
        for (si, scen) in def.scens.iter().enumerate() {
            let cnt = if scen.exhaustive { 1 } else { n };
            for idx in 0..cnt {
                jobs.push((def.id, si, idx));
            }
        }
    }
    let next = std::sync::atomic::AtomicUsize::new(0);
    std::thread::scope(|sc| {
        for _ in 0..workers.max(1) {
            sc.spawn(|| {
                core::install_panic_hook();
                loop {
                    let j = next.fetch_add(1, std::sync::atomic::Ordering::Relaxed);
                    if j >= jobs.len() { break; }
                    let (id, si, idx) = jobs[j];
                    let def = defs.iter().find(|d| d.id == id).unwrap();
                    let scen = &def.scens[si];
                    let s = core::mix(seed, &format!("{}/{}", def.id, scen.name), idx);
                    let out = exec(scen.f, core::Chooser::record(s), false, false);
                    let res = match (&out.result, &out.harness_error) {
                        (_, Some(h)) => format!("HARNESS {h}"),
                        (Ok(()), None) => "ok".to_string(),
                        (Err(v), None) => format!("VIOL {}", v.key()),
                    };
                    lines.lock().unwrap().push(format!("{} {} {} digest={:016x} skeleton={:016x} choices={} steps={} {}",
                        id, scen.name, idx, out.cx.digest, out.cx.skeleton, out.cx.ch.position(), out.cx.st.steps, res));
                }
            });
        }
    });
    let mut l = lines.into_inner().unwrap();
    l.sort();
    for x in &l {
        println!("{x}");
    }
    0
}
