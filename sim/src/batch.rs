//! Batch runner, minimiser, replay files, evidence, known findings.

use crate::core::*;
use crate::json::{self, J};
use std::collections::{BTreeMap, HashSet};
use std::path::{Path, PathBuf};
use std::sync::atomic::{AtomicU64, Ordering};
use std::sync::Mutex;
use std::time::Instant;

pub type ScenFn = fn(&mut Ctx) -> VResult;

pub struct Scen {
    pub name: &'static str,
    pub f: ScenFn,
    pub quick: u64,
    pub thorough: u64,
    /// Single-threaded scenarios own real threads themselves (D3) and are cheap to run in parallel anyway.
    pub exhaustive: bool,
}

pub struct PropDef {
    /// Optional Miri scenario (engine D5) run after the batch: (scenario name, quick seeds, thorough seeds).
    pub miri: Option<(&'static str, u64, u64)>,
    pub id: &'static str,
    pub level: &'static str,
    pub scens: Vec<Scen>,
    pub rule: &'static str,
    pub assumptions: Vec<&'static str>,
    pub real: Vec<&'static str>,
    pub stub: Vec<&'static str>,
    pub driver: &'static str,
}

#[derive(Clone, Copy, PartialEq, Eq)]
pub enum Tier {
    Quick,
    Thorough,
}

impl Tier {
    pub fn name(self) -> &'static str {
        match self { Tier::Quick => "quick", Tier::Thorough => "thorough" }
    }
}

pub struct RunOut {
    pub result: Result<(), Violation>,
    pub harness_error: Option<String>,
    pub cx: Ctx,
}

/// Executes one run of a scenario with the given chooser.
pub fn exec(f: ScenFn, ch: Chooser, trace: bool, want_sample: bool) -> RunOut {
    let mut cx = Ctx::new(ch, trace);
    cx.want_sample = want_sample;
    let r = std::panic::catch_unwind(std::panic::AssertUnwindSafe(|| f(&mut cx)));
    match r {
        Ok(res) => RunOut { result: res, harness_error: None, cx },
        Err(_) => {
            let msg = last_panic();
            if msg.starts_with("harness:") {
                RunOut { result: Ok(()), harness_error: Some(msg), cx }
            } else {
                // a panic that escaped from library code reached through an unguarded call
                let site = msg.rsplit(" at ").next().unwrap_or("").to_string();
                RunOut { result: Err(Violation::new("panic", &site, msg)), harness_error: None, cx }
            }
        }
    }
}

/// `exec` on a thread of its own: whatever thread-local state the library might keep starts out fresh, so a
/// reproduction or a replay is not influenced by the runs executed before it on the calling thread.
pub fn exec_isolated(f: ScenFn, ch: Chooser, trace: bool, want_sample: bool) -> RunOut {
    std::thread::scope(|sc| {
        sc.spawn(move || { install_panic_hook(); exec(f, ch, trace, want_sample) }).join()
    }).unwrap_or_else(|_| RunOut { result: Ok(()), harness_error: Some("harness: isolated execution thread panicked".into()), cx: Ctx::new(Chooser::replay(Vec::new()), false) })
}

fn scen_for(def: &PropDef, tier: Tier, run: u64) -> (usize, u64) {
    let mut acc = 0;
    for (i, s) in def.scens.iter().enumerate() {
        let n = if tier == Tier::Quick { s.quick } else { s.thorough };
        if run < acc + n {
            return (i, run - acc);
        }
        acc += n;
    }
    (def.scens.len() - 1, 0)
}

pub fn total_runs(def: &PropDef, tier: Tier) -> u64 {
    def.scens.iter().map(|s| if tier == Tier::Quick { s.quick } else { s.thorough }).sum()
}

fn run_seed(seed: u64, def: &PropDef, scen: &Scen, idx: u64) -> u64 {
    mix(seed, &format!("{}/{}", def.id, scen.name), idx)
}

struct Found {
    run: u64,
    scen: usize,
    idx: u64,
    v: Violation,
    choices: Vec<u32>,
}

#[derive(Default)]
struct Agg {
    stats: Stats,
    skeletons: HashSet<u64>,
    nontrivial: HashSet<u64>,
    states: HashSet<u64>,
    samples: Vec<(u64, String)>,
    found: BTreeMap<String, Found>,
    harness: Option<String>,
    done: u64,
}

pub struct Known {
    pub property: String,
    pub key: String,
    pub status: String,
    pub what: String,
}

pub fn load_known(dir: &Path) -> Vec<Known> {
    let p = dir.join("known-findings.json");
    let Ok(txt) = std::fs::read_to_string(&p) else { return Vec::new() };
    let Ok(j) = json::parse(&txt) else {
        eprintln!("harness error: cannot parse {}", p.display());
        std::process::exit(2);
    };
    let mut v = Vec::new();
    if let Some(a) = j.get("findings").and_then(J::as_arr) {
        for e in a {
            v.push(Known {
                property: e.get("property").and_then(J::as_str).unwrap_or("").to_string(),
                key: e.get("key").and_then(J::as_str).unwrap_or("").to_string(),
                status: e.get("status").and_then(J::as_str).unwrap_or("").to_string(),
                what: e.get("what").and_then(J::as_str).unwrap_or("").to_string(),
            });
        }
    }
    v
}

/// Which build of the simulator this is: "release" (debug assertions and overflow checks on, the main pass) or
/// "relna" (both off, as in a shipped build; the secondary pass). A replay file names the build that produced it.
pub fn build_profile() -> &'static str {
    if cfg!(debug_assertions) { "release" } else { "relna" }
}

pub fn replay_json(def: &PropDef, scen: &Scen, seed: u64, idx: u64, choices: &[u32], v: &Violation, digest: u64, trace: &[String]) -> J {
    J::obj()
        .set("property", J::s(def.id))
        .set("scenario", J::s(scen.name))
        .set("profile", J::s(build_profile()))
        .set("seed", J::i(seed))
        .set("run_index", J::i(idx))
        .set("oracle", J::s(&v.oracle))
        .set("site", J::s(&v.site))
        .set("detail", J::s(&v.detail))
        .set("digest", J::s(&format!("{digest:016x}")))
        .set("choices", J::Arr(choices.iter().map(|&c| J::i(u64::from(c))).collect()))
        .set("trace", J::Arr(trace.iter().rev().take(400).rev().map(|s| J::s(s)).collect()))
}

/// Shrinks a failing choice list while the same violation class recurs.
pub fn minimise(f: ScenFn, choices: Vec<u32>, key: &str, budget: usize) -> (Vec<u32>, usize) {
    let mut best = choices;
    let mut tries = 0usize;
    // re-executions of a run that ends at the step cap are slow: the budget is also bounded in wall-clock time
    // (only the amount of shrinking depends on it, never the verdict; the replay file records what was reached)
    let started = std::time::Instant::now();
    let same = |list: &[u32], tries: &mut usize| -> Option<usize> {
        if started.elapsed().as_secs() >= 45 { *tries = (*tries).max(budget + 1000); return None; }
        *tries += 1;
        let out = exec_isolated(f, Chooser::replay(list.to_vec()), false, false);
        match out.result {
            Err(v) if v.key() == key && out.harness_error.is_none() => Some(out.cx.ch.position()),
            _ => None,
        }
    };
    // 1. truncate to what was actually consumed
    if let Some(used) = same(&best, &mut tries) {
        best.truncate(used.min(best.len()));
    } else {
        return (best, tries);
    }
    // 2. truncate tail (binary)
    let mut len = best.len();
    let mut step = len / 2;
    while step >= 1 && tries < budget {
        if len > step {
            let cand = best[..len - step].to_vec();
            if same(&cand, &mut tries).is_some() {
                best = cand;
                len = best.len();
                continue;
            }
        }
        step /= 2;
    }
    // 3. delete blocks, zero blocks
    let mut block = (best.len() / 4).max(1);
    while block >= 1 && tries < budget {
        let mut i = 0;
        while i < best.len() && tries < budget {
            let end = (i + block).min(best.len());
            let mut cand = best.clone();
            cand.drain(i..end);
            if same(&cand, &mut tries).is_some() {
                best = cand;
                continue;
            }
            if best[i..end].iter().any(|&x| x != 0) {
                let mut cand = best.clone();
                for x in &mut cand[i..end] { *x = 0; }
                if same(&cand, &mut tries).is_some() {
                    best = cand;
                }
            }
            i += block;
        }
        if block == 1 { break; }
        block /= 2;
    }
    // 4. lower single values
    let mut i = 0;
    while i < best.len() && tries < budget {
        if best[i] > 0 {
            for cand_v in [0, best[i] / 2, best[i] - 1] {
                if cand_v >= best[i] { continue; }
                let mut cand = best.clone();
                cand[i] = cand_v;
                if same(&cand, &mut tries).is_some() {
                    best = cand;
                    break;
                }
            }
        }
        i += 1;
    }
    while best.last() == Some(&0) {
        let mut cand = best.clone();
        cand.pop();
        if tries < budget + 50 && same(&cand, &mut tries).is_some() { best = cand; } else { break; }
    }
    (best, tries)
}

pub fn write_file(p: &Path, s: &str) {
    if let Some(d) = p.parent() {
        let _ = std::fs::create_dir_all(d);
    }
    if let Err(e) = std::fs::write(p, s) {
        eprintln!("harness error: cannot write {}: {e}", p.display());
        std::process::exit(2);
    }
}

pub struct BatchCfg {
    pub seed: u64,
    pub tier: Tier,
    pub verif_dir: PathBuf,
    pub workers: usize,
    pub scale: f64,
    pub write_evidence: bool,
}

/// Runs the whole batch of a property. Returns the process exit code.
pub fn run_property(def: &PropDef, cfg: &BatchCfg) -> i32 {
    let t0 = Instant::now();
    let total = ((total_runs(def, cfg.tier) as f64) * cfg.scale).ceil().max(1.0) as u64;
    let scale = cfg.scale;
    let next = AtomicU64::new(0);
    let agg = Mutex::new(Agg::default());
    let stop_at = AtomicU64::new(u64::MAX);
    let wall_cap_s: u64 = std::env::var("VERIF_WALL_CAP_S").ok().and_then(|s| s.parse().ok()).unwrap_or(if cfg.tier == Tier::Quick { 900 } else { 7200 });
    println!("VERIF_SEED={} property={} tier={} runs={} workers={}", cfg.seed, def.id, cfg.tier.name(), total, cfg.workers);
    // scaled scenario lookup
    let scen_of = |run: u64| -> (usize, u64) {
        if (scale - 1.0).abs() < 1e-9 { return scen_for(def, cfg.tier, run); }
        let mut acc = 0u64;
        for (i, s) in def.scens.iter().enumerate() {
            let n0 = if cfg.tier == Tier::Quick { s.quick } else { s.thorough };
            let n = if s.exhaustive { n0 } else { ((n0 as f64) * scale).ceil() as u64 };
            if run < acc + n { return (i, run - acc); }
            acc += n;
        }
        (def.scens.len() - 1, run)
    };
    // watchdog: a library call that never returns (an endless loop inside one parse() or one poll that does not even
    // touch the simulated transport) cannot be seen by any oracle inside the run; each worker publishes the run it is
    // executing and when it started, and a run that exceeds the limit is reported as a hang with its seed
    let hang_limit_ms: u64 = std::env::var("VERIF_HANG_S").ok().and_then(|s| s.parse::<u64>().ok()).unwrap_or(300) * 1000;
    let cur_run: Vec<AtomicU64> = (0..cfg.workers).map(|_| AtomicU64::new(u64::MAX)).collect();
    let cur_start: Vec<AtomicU64> = (0..cfg.workers).map(|_| AtomicU64::new(0)).collect();
    let workers_done = AtomicU64::new(0);
    let wid_next = AtomicU64::new(0);
    std::thread::scope(|sc| {
        sc.spawn(|| {
            while workers_done.load(Ordering::SeqCst) < cfg.workers as u64 {
                std::thread::sleep(std::time::Duration::from_millis(200));
                let now = t0.elapsed().as_millis() as u64;
                for w in 0..cfg.workers {
                    let run = cur_run[w].load(Ordering::SeqCst);
                    let st = cur_start[w].load(Ordering::SeqCst);
                    if run != u64::MAX && now.saturating_sub(st) > hang_limit_ms && cur_run[w].load(Ordering::SeqCst) == run {
                        let (si, idx) = scen_of(run);
                        let scen = &def.scens[si];
                        let v = Violation::new("hang", "call_never_returned", format!("run {idx} of scenario {} did not finish within {} s: a library call never returned (endless loop inside one call)", scen.name, hang_limit_ms / 1000));
                        let path = cfg.verif_dir.join("replays").join(format!("{}-{}-{}-{}.json", def.id, scen.name, cfg.seed, idx));
                        let j = replay_json(def, scen, cfg.seed, idx, &[], &v, 0, &[]).set("seeded", J::Bool(true));
                        write_file(&path, &j.to_string_pretty());
                        println!("violation class {} scenario {} run {}: {}", v.key(), scen.name, idx, v.detail);
                        println!("VIOLATION property={} replay={}", def.id, path.display());
                        // (no evidence file is written for an aborted batch: its figures would be meaningless)
                        std::process::exit(1);
                    }
                }
            }
        });
        for _w in 0..cfg.workers {
            sc.spawn(|| {
                install_panic_hook();
                let wid = wid_next.fetch_add(1, Ordering::SeqCst) as usize;
                let mut local = Agg::default();
                loop {
                    let run = next.fetch_add(64, Ordering::Relaxed);
                    if run >= total { break; }
                    if t0.elapsed().as_secs() > wall_cap_s { break; }
                    for run in run..(run + 64).min(total) {
                        if run > stop_at.load(Ordering::Relaxed) { continue; }
                        let (si, idx) = scen_of(run);
                        let scen = &def.scens[si];
                        let want_sample = idx < 2;
                        let ch = Chooser::record(run_seed(cfg.seed, def, scen, idx));
                        cur_start[wid].store(t0.elapsed().as_millis() as u64, Ordering::SeqCst);
                        cur_run[wid].store(run, Ordering::SeqCst);
                        let out = exec(scen.f, ch, false, want_sample);
                        cur_run[wid].store(u64::MAX, Ordering::SeqCst);
                        local.done += 1;
                        local.stats.merge(&out.cx.st);
                        local.skeletons.insert(out.cx.skeleton);
                        if out.cx.nontrivial { local.nontrivial.insert(out.cx.skeleton ^ out.cx.digest.rotate_left(1)); }
                        if local.states.len() < 2_000_000 { local.states.extend(out.cx.states.iter().copied()); }
                        if let Some(s) = out.cx.sample.clone() {
                            if local.samples.len() < 8 { local.samples.push((run, format!("[{}#{}] {}", scen.name, idx, s))); }
                        }
                        if let Some(h) = out.harness_error {
                            local.harness.get_or_insert(format!("{} run {idx}: {h}", scen.name));
                            stop_at.fetch_min(run, Ordering::Relaxed);
                        }
                        if let Err(v) = out.result {
                            let key = format!("{}:{}", scen.name, v.key());
                            let better = local.found.get(&key).map_or(true, |f| run < f.run);
                            if better {
                                local.found.insert(key, Found { run, scen: si, idx, v, choices: out.cx.ch.log.clone() });
                            }
                            // keep exploring a little for other classes, but bound the work
                            stop_at.fetch_min(run + 20_000, Ordering::Relaxed);
                        }
                    }
                }
                workers_done.fetch_add(1, Ordering::SeqCst);
                let mut a = agg.lock().unwrap();
                a.stats.merge(&local.stats);
                a.skeletons.extend(local.skeletons);
                a.nontrivial.extend(local.nontrivial);
                a.states.extend(local.states);
                a.samples.extend(local.samples);
                a.done += local.done;
                if a.harness.is_none() { a.harness = local.harness; }
                for (k, f) in local.found {
                    let better = a.found.get(&k).map_or(true, |g| f.run < g.run);
                    if better { a.found.insert(k, f); }
                }
            });
        }
    });
    install_panic_hook();
    let mut a = agg.into_inner().unwrap();
    let wall = t0.elapsed().as_secs_f64();
    if let Some(h) = &a.harness {
        eprintln!("HARNESS-ERROR property={} {h}", def.id);
        return 2;
    }
    // classify violations
    let known = load_known(&cfg.verif_dir);
    let mut exit = 0;
    let mut violations = 0u64;
    let mut known_hits = Vec::new();
    let mut unreproduced: Vec<(u64, usize, u64, String, String)> = Vec::new();
    for (_k, f) in &a.found {
        let vkey = f.v.key();
        if let Some(kf) = known.iter().find(|k| k.property == def.id && k.status == "known" && vkey.starts_with(&k.key)) {
            known_hits.push(format!("KNOWN-FINDING: property={} {} [{}]", def.id, kf.what, kf.key));
            continue;
        }
        violations += 1;
        exit = 1;
        let scen = &def.scens[f.scen];
        // reproduce, minimise, write replay files
        let mut orig = exec_isolated(scen.f, Chooser::replay(f.choices.clone()), true, false);
        let mut reproduced = matches!(&orig.result, Err(v) if v.key() == vkey);
        // The harness is deterministic (bin/setup proves it); if the same choice list does not give the same result, the
        // library's behaviour depends on something else - hash-map iteration order, an address, a thread id. Retried a
        // few times: a violation that recurs only sometimes is still reported, its replay file marked accordingly.
        let mut flaky = false;
        if !reproduced {
            for _ in 0..20 {
                let again = exec_isolated(scen.f, Chooser::replay(f.choices.clone()), true, false);
                if matches!(&again.result, Err(v) if v.key() == vkey) { orig = again; reproduced = true; flaky = true; break; }
            }
        }
        let dir = cfg.verif_dir.join("replays");
        let base = format!("{}-{}-{}-{}{}", def.id, scen.name, cfg.seed, f.idx, if build_profile() == "relna" { "-relna" } else { "" });
        let orig_path = dir.join(format!("{base}.orig.json"));
        write_file(&orig_path, &replay_json(def, scen, cfg.seed, f.idx, &f.choices, &f.v, orig.cx.digest, &orig.cx.events).to_string_pretty());
        if !reproduced && vkey.starts_with("harness_baton_timeout") {
            // Wall-clock starvation, not behaviour: on an overloaded machine a simulated thread of the serialising
            // scheduler did not get onto a core within the time-out. The run completes normally when executed alone
            // (21 executions above), so it says nothing about the library and nothing about the harness's logic.
            violations -= 1;
            if violations == 0 && exit == 1 { exit = 0; }
            println!("note: run {} of scenario {} hit the baton time-out of the thread scheduler (a simulated thread got no CPU for 60 s of wall-clock time) and completes normally when executed alone: machine overload, not counted", f.idx, scen.name);
            continue;
        }
        if !reproduced {
            // The run violated the oracle inside the batch but not when executed alone: either the harness is
            // nondeterministic, or the library carries state from one run to the next (a thread-local or global).
            // Decided below, once the classes that do reproduce are known.
            violations -= 1;
            unreproduced.push((f.run, f.scen, f.idx, vkey.clone(), f.v.detail.clone()));
            continue;
        }
        if flaky {
            let path = dir.join(format!("{base}.json"));
            write_file(&path, &replay_json(def, scen, cfg.seed, f.idx, &f.choices, &f.v, orig.cx.digest, &orig.cx.events).set("flaky", J::Bool(true)).to_string_pretty());
            println!("violation class {} scenario {} run {} (not minimised: the same choice list does not always give the same result - the library's behaviour depends on something outside the simulation): {}", vkey, scen.name, f.idx, f.v.detail);
            println!("VIOLATION property={} replay={}", def.id, path.display());
            continue;
        }
        let (min, tries) = minimise(scen.f, f.choices.clone(), &vkey, 600);
        let m = exec_isolated(scen.f, Chooser::replay(min.clone()), true, false);
        let mv = match &m.result { Err(v) => v.clone(), Ok(()) => f.v.clone() };
        let path = dir.join(format!("{base}.json"));
        write_file(&path, &replay_json(def, scen, cfg.seed, f.idx, &min, &mv, m.cx.digest, &m.cx.events).to_string_pretty());
        println!("violation class {} scenario {} run {} (choices {} -> {} after {} re-executions): {}", vkey, scen.name, f.idx, f.choices.len(), min.len(), tries, mv.detail);
        println!("VIOLATION property={} replay={}", def.id, path.display());
    }
    if !unreproduced.is_empty() {
        unreproduced.sort();
        if violations > 0 {
            exit = 1;
            for (_, si, idx, key, _) in &unreproduced {
                println!("note: violation class {key} (scenario {} run {idx}) was observed in the batch but does not recur when that run is executed alone - the library carries state from one run to the next; the classes reported above reproduce from their replay files", def.scens[*si].name);
            }
        } else {
            // nothing reproduces alone: replay the sequence of runs that preceded the failing one in its chunk, on a fresh thread
            let (run, si, idx, key, detail) = unreproduced[0].clone();
            let scen = &def.scens[si];
            let from_run = run - run % 64;
            let from_idx = idx - (run - from_run).min(idx);
            let f = scen.f;
            let seeds: Vec<u64> = (from_idx..=idx).map(|i| run_seed(cfg.seed, def, scen, i)).collect();
            let last = std::thread::spawn(move || {
                install_panic_hook();
                let mut last = None;
                for s in seeds { last = Some(exec(f, Chooser::record(s), false, false).result); }
                last
            }).join().ok().flatten();
            let again = matches!(&last, Some(Err(v)) if v.key() == key);
            if again {
                violations += 1;
                exit = 1;
                let v = Violation::new(key.split('@').next().unwrap_or(&key), key.split('@').nth(1).unwrap_or(""), format!("{detail} [recurs only after runs {from_idx}..{idx} of the scenario were executed on the same thread: state carried between calls]"));
                let path = cfg.verif_dir.join("replays").join(format!("{}-{}-{}-{}-seq.json", def.id, scen.name, cfg.seed, idx));
                let j = replay_json(def, scen, cfg.seed, idx, &[], &v, 0, &[]).set("seeded", J::Bool(true)).set("run_from", J::i(from_idx));
                write_file(&path, &j.to_string_pretty());
                println!("violation class {key} scenario {} runs {from_idx}..={idx} (sequence replay): {}", scen.name, v.detail);
                println!("VIOLATION property={} replay={}", def.id, path.display());
            } else {
                eprintln!("HARNESS-ERROR property={} violation {} did not reproduce from its own choice list nor from the run sequence before it (nondeterminism)", def.id, key);
                return 2;
            }
        }
    }
    // D5: Miri's seeded scheduler (C13 / C14 thread clauses)
    let mut miri_json = None;
    if let Some((scenario, q, t)) = def.miri {
        if std::env::var("VERIF_NO_MIRI").is_err() {
            let seeds = if cfg.tier == Tier::Quick { q } else { t };
            let m = crate::miri::run(&cfg.verif_dir, scenario, seeds, cfg.seed);
            if let Some((seed, rate, msg)) = &m.failing {
                violations += 1;
                exit = 1;
                let path = cfg.verif_dir.join("replays").join(format!("{}-miri-{}-{}.json", def.id, scenario, seed));
                let j = J::obj().set("property", J::s(def.id)).set("engine", J::s("miri")).set("scenario", J::s(scenario))
                    .set("seed", J::i(*seed)).set("preemption_rate", J::s(rate)).set("detail", J::s(msg));
                write_file(&path, &j.to_string_pretty());
                println!("violation class miri:{scenario} seed {seed} rate {rate}: {msg}");
                println!("VIOLATION property={} replay={}", def.id, path.display());
            }
            if let Some(s) = &m.skipped { println!("note: Miri extra skipped: {s}"); }
            println!("miri: scenario={scenario} seeds={} wall={:.1}s failing={}", m.seeds, m.wall_s, m.failing.is_some());
            miri_json = Some(crate::miri::to_json(scenario, &m));
        }
    }
    known_hits.sort();
    known_hits.dedup();
    for k in &known_hits {
        println!("{k}");
    }
    // evidence
    a.samples.sort();
    let reach_gaps: Vec<J> = a.stats.probes.iter().filter(|(_, v)| **v == 0).map(|(k, _)| J::s(k)).collect();
    let fault_gaps: Vec<J> = a.stats.faults.iter().filter(|(_, v)| **v == 0).map(|(k, _)| J::s(k)).collect();
    let distinct_nontrivial = a.nontrivial.len() as u64;
    let cov = J::obj()
        .set("evaluations", J::i(a.done))
        .set("distinct_nontrivial", J::i(distinct_nontrivial))
        .set("rule", J::s(def.rule))
        .set("samples", J::Arr(a.samples.iter().take(6).map(|(_, s)| J::s(s)).collect()))
        .set("exhaustive", J::Bool(false))
        .set("distinct_run_skeletons", J::i(a.skeletons.len() as u64))
        .set("distinct_abstract_states", J::i(a.states.len() as u64))
        .set("simulated_steps", J::i(a.stats.steps))
        .set("runs_per_hour", J::Num(if wall > 0.0 { a.done as f64 / wall * 3600.0 } else { 0.0 }))
        .set("seeds_per_hour", J::Num(if wall > 0.0 { a.done as f64 / wall * 3600.0 } else { 0.0 }))
        .set("simulated_time", J::s("the library has no clock or timer; simulated time is reported as simulated_steps (scheduler/caller events)"))
        .set("faults_fired", J::from_map(&a.stats.faults))
        .set("reach_probes", J::from_map(&a.stats.probes))
        .set("reach_gaps", J::Arr(reach_gaps))
        .set("fault_gaps", J::Arr(fault_gaps))
        .set("driver", J::s(def.driver))
        .set("scenarios", J::Arr(def.scens.iter().map(|s| J::s(s.name)).collect()))
        .set("real_components", J::Arr(def.real.iter().map(|s| J::s(s)).collect()))
        .set("stub_components", J::Arr(def.stub.iter().map(|s| J::s(s)).collect()))
        .set("known_findings_hit", J::Arr(known_hits.iter().map(|s| J::s(s)).collect()))
        .set("planned_runs", J::i(total))
        .set("miri_thread_schedules", miri_json.unwrap_or(J::Null))
        .set("build_profile", J::s(if build_profile() == "release" { "debug assertions and overflow checks ON in the library and the harness" } else { "debug assertions and overflow checks OFF" }))
        .set("secondary_pass_without_debug_assertions", match std::env::var("VERIF_SECONDARY_SUMMARY") { Ok(s) if !s.is_empty() => J::s(&s), _ => J::Null });
    let ev = J::obj()
        .set("property_id", J::s(def.id))
        .set("tier", J::s(cfg.tier.name()))
        .set("seed", J::i(cfg.seed))
        .set("level", J::s(def.level))
        .set("coverage", cov)
        .set("assumptions", J::Arr(def.assumptions.iter().map(|s| J::s(s)).collect()))
        .set("wall_s", J::Num(wall))
        .set("violations", J::i(violations));
    if cfg.write_evidence {
        write_file(&cfg.verif_dir.join("evidence").join(format!("{}.json", def.id)), &ev.to_string_pretty());
    }
    if build_profile() == "relna" { print!("secondary pass (no debug assertions / overflow checks): "); }
    println!("property={} tier={} runs={} distinct_nontrivial={} skeletons={} steps={} wall={:.1}s violations={} known={}",
        def.id, cfg.tier.name(), a.done, distinct_nontrivial, a.skeletons.len(), a.stats.steps, wall, violations, known_hits.len());
    exit
}

/// Replays a file in this process; exit 1 + VIOLATION line if the recorded violation recurs
/// with the same digest, 2 on mismatch.
pub fn replay_file(defs: &[PropDef], path: &Path) -> i32 {
    let Ok(txt) = std::fs::read_to_string(path) else {
        eprintln!("harness error: cannot read {}", path.display());
        return 2;
    };
    let j = match json::parse(&txt) {
        Ok(j) => j,
        Err(e) => { eprintln!("harness error: {e}"); return 2; }
    };
    let prop = j.get("property").and_then(J::as_str).unwrap_or("");
    let scen_name = j.get("scenario").and_then(J::as_str).unwrap_or("");
    if j.get("engine").and_then(J::as_str) == Some("miri") {
        let seed = j.get("seed").and_then(J::as_u64).unwrap_or(0);
        let rate = j.get("preemption_rate").and_then(J::as_str).unwrap_or("0.1").to_string();
        let dir = path.parent().and_then(|p| p.parent()).unwrap_or(Path::new("."));
        let (fails, msg) = crate::miri::run_single(dir, scen_name, seed, &rate);
        println!("miri replay: scenario={scen_name} seed={seed} rate={rate}: {msg}");
        if fails {
            println!("VIOLATION property={prop} replay={}", path.display());
            return 1;
        }
        eprintln!("replay mismatch: the Miri schedule did not fail");
        return 2;
    }
    let Some(def) = defs.iter().find(|d| d.id == prop) else { eprintln!("harness error: unknown property {prop}"); return 2; };
    let Some(scen) = def.scens.iter().find(|s| s.name == scen_name) else { eprintln!("harness error: unknown scenario {scen_name}"); return 2; };
    let choices: Vec<u32> = j.get("choices").and_then(J::as_arr).map(|a| a.iter().filter_map(J::as_u64).map(|x| x as u32).collect()).unwrap_or_default();
    let want_key = {
        let o = j.get("oracle").and_then(J::as_str).unwrap_or("");
        let s = j.get("site").and_then(J::as_str).unwrap_or("");
        if s.is_empty() { o.to_string() } else { format!("{o}@{s}") }
    };
    let want_digest = j.get("digest").and_then(J::as_str).unwrap_or("").to_string();
    install_panic_hook();
    if j.get("seeded").map_or(false, |b| matches!(b, J::Bool(true))) {
        // a hang report: the replay is the seed; the run is repeated on a thread and must again fail to return
        let seed = j.get("seed").and_then(J::as_u64).unwrap_or(0);
        let idx = j.get("run_index").and_then(J::as_u64).unwrap_or(0);
        let limit_s: u64 = std::env::var("VERIF_HANG_S").ok().and_then(|s| s.parse::<u64>().ok()).unwrap_or(300);
        let f = scen.f;
        let run_from = j.get("run_from").and_then(J::as_u64).unwrap_or(idx);
        let seeds: Vec<u64> = (run_from..=idx).map(|i| run_seed(seed, def, scen, i)).collect();
        let is_seq = j.get("run_from").is_some();
        let (tx, rx) = std::sync::mpsc::channel();
        std::thread::spawn(move || {
            install_panic_hook();
            let mut last = (String::new(), "no violation".to_string());
            for rs in seeds {
                let out = exec(f, Chooser::record(rs), false, false);
                last = match out.result { Ok(()) => (String::new(), "no violation".to_string()), Err(v) => (v.key(), format!("{} -- {}", v.key(), v.detail)) };
            }
            let _ = tx.send(last);
        });
        return match rx.recv_timeout(std::time::Duration::from_secs(limit_s)) {
            Ok((k, r)) if is_seq => {
                println!("replayed runs {run_from}..={idx}: {r}");
                if k == want_key { println!("VIOLATION property={} replay={}", def.id, path.display()); 1 } else { eprintln!("replay mismatch: file says {want_key}"); 2 }
            }
            Ok((_, r)) => { eprintln!("replay mismatch: the run finished ({r}); file says {want_key}"); 2 }
            Err(_) => {
                println!("replayed: {want_key} -- the run did not finish within {limit_s} s");
                println!("VIOLATION property={} replay={}", def.id, path.display());
                1
            }
        };
    }
    if j.get("flaky").map_or(false, |b| matches!(b, J::Bool(true))) {
        for attempt in 1..=60 {
            let out = exec_isolated(scen.f, Chooser::replay(choices.clone()), false, false);
            if let Err(v) = &out.result {
                if v.key() == want_key {
                    println!("replayed (attempt {attempt}; the file is marked flaky): {} -- {}", v.key(), v.detail);
                    println!("VIOLATION property={} replay={}", def.id, path.display());
                    return 1;
                }
            }
        }
        eprintln!("replay mismatch: {want_key} did not recur in 60 attempts");
        return 2;
    }
    let out = exec_isolated(scen.f, Chooser::replay(choices), true, true);
    for e in &out.cx.events {
        println!("  {e}");
    }
    if let Some(s) = &out.cx.sample { println!("case: {s}"); }
    let digest = format!("{:016x}", out.cx.digest);
    match out.result {
        Err(v) => {
            println!("replayed: {} -- {}", v.key(), v.detail);
            if v.key() == want_key && digest == want_digest {
                println!("VIOLATION property={} replay={}", def.id, path.display());
                1
            } else {
                eprintln!("replay mismatch: got {} digest {digest}, file says {want_key} digest {want_digest}", v.key());
                2
            }
        }
        Ok(()) => {
            if let Some(h) = out.harness_error { eprintln!("harness error: {h}"); return 2; }
            eprintln!("replay mismatch: no violation (file says {want_key}); digest {digest} vs {want_digest}");
            2
        }
    }
}
