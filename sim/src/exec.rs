//! D2: deterministic single-threaded executor, simulated transport, peer model.
//!
//! Strict mode: a task is polled only if its waker fired since its last poll (plus
//! rare, explicitly chosen spurious polls). Every scheduling decision, every read
//! and write size, every Pending and every fault is a Chooser decision.

use crate::core::*;
use crate::wire::{self, Rec};
use futures_util::io::{AsyncRead, AsyncWrite};
use std::future::Future;
use std::io::{self, IoSlice};
use std::pin::Pin;
use std::sync::atomic::{AtomicBool, AtomicU64, Ordering};
use std::sync::{Arc, Mutex, MutexGuard};
use std::task::{Context, Poll, Wake, Waker};

#[derive(Clone, Copy, Debug, PartialEq, Eq)]
pub enum Gate {
    /// Send as soon as the previous segment is out.
    Open,
    /// Open-loop client: send only after n EndRequest records (protocol status != CantMpx/UnknownRole noise
    /// excluded by construction) have been completely written to the transport.
    AfterEndRequests(usize),
    /// Closed-loop peer: send only after n complete reply records (GetValuesResult / Unknown) are in the log.
    AfterReplies(usize),
}

#[derive(Clone, Debug)]
pub struct Seg {
    /// End offset (exclusive) of this segment in `wire`.
    pub end: usize,
    pub gate: Gate,
}

#[derive(Clone, Copy, Debug, PartialEq, Eq)]
pub enum RFault {
    None,
    /// The transport reports EOF once exactly this many bytes have been read.
    EofAt(usize),
    /// The n-th read call (0-based) fails.
    ErrAtCall(usize),
}

#[derive(Clone, Copy, Debug, PartialEq, Eq)]
pub enum WFault {
    None,
    /// The n-th write call fails once (the transport would accept again afterwards).
    ErrAtCall(usize),
    /// The n-th write call returns Ok(0) once.
    ZeroAtCall(usize),
    /// The n-th flush call fails once.
    FlushErrAtCall(usize),
}

#[derive(Clone, Copy, Debug)]
pub struct Knobs {
    /// 0 whole, 1 one byte, 2 tiny, 3 random
    pub read_style: u32,
    pub write_style: u32,
    /// probability (x/16) that a read with data available returns Pending first
    pub read_pending: u32,
    pub write_pending: u32,
    /// delivery granularity from peer to socket buffer: 0 whole segment, 1 tiny pieces, 2 random
    pub deliver_style: u32,
    pub spurious_polls: u32,
    /// Every poll of a task (and of a handler sub-future) gets a Waker of its own; only the one handed to the
    /// most recent poll schedules the task (the `Future::poll` contract), wake-ups through older ones are lost.
    pub fresh_wakers: bool,
    /// poll_write_vectored behaves like the trait's default implementation: only the first non-empty slice is
    /// looked at (a transport without scatter/gather support).
    pub vectored_first_only: bool,
}

pub struct World {
    pub cx: Ctx,
    pub knobs: Knobs,
    // ---- read side
    pub wire: Vec<u8>,
    pub segs: Vec<Seg>,
    pub next_seg: usize,
    pub sent: usize,
    pub avail: usize,
    pub read_pos: usize,
    pub peer_closed: bool,
    pub close_when_done: bool,
    pub read_waker: Option<Waker>,
    pub read_blocked: bool,
    pub rfault: RFault,
    pub read_calls: usize,
    pub reads_after_mark: usize,
    pub read_dropped: bool,
    pub eof_reported: bool,
    // ---- write side
    pub log: Vec<u8>,
    pub decoded: Vec<Rec>,
    pub decoded_upto: usize,
    /// For each decoded record: number of input bytes the library had read when the record completed.
    pub decoded_at_read: Vec<usize>,
    pub write_waker: Option<Waker>,
    pub write_blocked: bool,
    pub wfault: WFault,
    pub write_calls: usize,
    pub flush_calls: usize,
    /// Set when the connection wrote an absurd amount (a runaway write loop); the transport fails from then on.
    pub flooded: bool,
    /// C14: shutdown is requested from inside the n-th transport read call (as another thread would while this one
    /// is in the middle of a poll); the closure does the request, the fields for the oracles are set by the transport.
    pub eval_idle_after_poll: bool,
    /// C14: the client and the read side are frozen (nothing is sent, delivered, closed or made readable any more):
    /// set when shutdown is requested while the connection is idle - an idle connection has to stop because of the
    /// request, not because the client happens to do something afterwards.
    pub peer_frozen: bool,
    pub freeze_if_idle: bool,
    pub shutdown_in_read_call: Option<usize>,
    pub mid_poll_shutdown: Option<Box<dyn FnOnce() + Send>>,
    /// Transport calls made during the current poll of a task; a poll that keeps calling the transport without
    /// ever returning is a spin (the executor's step cap cannot see it), reported through `spun`.
    pub calls_this_poll: u64,
    pub spun: bool,
    pub write_failed_at: Option<usize>,
    pub writes_after_failure: usize,
    pub write_dropped: bool,
    pub lock_held_pending: bool,
    // ---- bookkeeping for oracles
    pub end_requests: usize,
    pub replies_seen: usize,
    pub handler_log: Vec<crate::d2::Invocation>,
    pub shutdown_requested_at_step: Option<u64>,
    pub step: u64,
    pub current_poll_started_after_shutdown: bool,
    /// C08 (closed-loop peer only): end offsets of the records that owe a reply, in wire order; checked at every
    /// suspension on the transport read.
    pub owed_triggers: Vec<usize>,
    /// If non-empty: the suspension invariant is evaluated only when the bytes read so far end at one of these
    /// offsets (record boundaries of the client's script) - for peers that send further records behind a query.
    pub rec_bounds: Vec<usize>,
    pub suspend_violation: Option<(String, String)>,
    pub empty_buf_reads: usize,
    pub force_propagate: bool,
    /// Pipelining scenario: every handler ends having read its final input stream to end-of-file.
    pub read_everything: bool,
    /// C09 direct route: the request was built by hand with a later stream selected already.
    pub preselected: bool,
    /// Kind of the injected read error (chosen per script).
    pub read_err_kind: io::ErrorKind,
    pub read_error_fired: bool,
    pub reads_after_read_error: usize,
    /// C10 extension: handlers retry a write that failed with the injected transient error.
    pub retry_failed_writes: bool,
    /// Set when shutdown is requested while the connection is idle: reads after this point are counted.
    pub idle_at_shutdown: bool,
}

pub type Shared = Arc<Mutex<World>>;

pub fn lock(w: &Shared) -> MutexGuard<'_, World> {
    w.lock().unwrap_or_else(std::sync::PoisonError::into_inner)
}

pub const SPIN_LIMIT: u64 = 2_000_000;

impl World {
    /// Called at the start of every transport call.
    fn note_call(&mut self) {
        self.calls_this_poll += 1;
        if self.calls_this_poll > SPIN_LIMIT {
            self.spun = true;
            self.calls_this_poll = 0;
            // unwinds through the library's frames to the executor's catch_unwind: the poll would never return
            panic!("simulated transport: {SPIN_LIMIT} transport calls within a single poll (spin)");
        }
    }

    pub fn new(cx: Ctx, knobs: Knobs, wire: Vec<u8>, segs: Vec<Seg>) -> World {
        World {
            cx, knobs, wire, segs, next_seg: 0, sent: 0, avail: 0, read_pos: 0, peer_closed: false, close_when_done: true,
            read_waker: None, read_blocked: false, rfault: RFault::None, read_calls: 0, reads_after_mark: 0, read_dropped: false, eof_reported: false,
            log: Vec::new(), decoded: Vec::new(), decoded_upto: 0, decoded_at_read: Vec::new(), write_waker: None, write_blocked: false,
            wfault: WFault::None, write_calls: 0, flush_calls: 0, flooded: false, eval_idle_after_poll: false, peer_frozen: false, freeze_if_idle: false, shutdown_in_read_call: None, mid_poll_shutdown: None, calls_this_poll: 0, spun: false, write_failed_at: None, writes_after_failure: 0, write_dropped: false, lock_held_pending: false,
            end_requests: 0, replies_seen: 0, handler_log: Vec::new(), shutdown_requested_at_step: None, step: 0,
            current_poll_started_after_shutdown: false,
            owed_triggers: Vec::new(), rec_bounds: Vec::new(), suspend_violation: None, empty_buf_reads: 0, force_propagate: false, read_everything: false, preselected: false, idle_at_shutdown: false, read_err_kind: io::ErrorKind::ConnectionReset, read_error_fired: false, reads_after_read_error: 0, retry_failed_writes: false,
        }
    }

    fn decode_more(&mut self) {
        let (recs, used) = wire::decode_all(&self.log[self.decoded_upto..]);
        self.decoded_upto += used;
        for r in recs {
            if r.rtype == wire::END {
                // every EndRequest record counts; scenarios add the END-type replies owed earlier to their thresholds
                self.end_requests += 1;
            }
            if r.rtype == wire::GETVALUESRESULT || r.rtype == wire::UNKNOWN {
                self.replies_seen += 1;
            }
            self.decoded.push(r);
            self.decoded_at_read.push(self.read_pos);
        }
    }

    pub fn gate_open(&self) -> bool {
        match self.segs.get(self.next_seg) {
            None => false,
            Some(s) => match s.gate {
                Gate::Open => true,
                Gate::AfterEndRequests(n) => self.end_requests >= n,
                Gate::AfterReplies(n) => self.replies_seen >= n,
            },
        }
    }

    fn append_log(&mut self, data: &[u8]) {
        self.log.extend_from_slice(data);
        self.decode_more();
    }
}

// ------------------------------------------------------------------ transport

pub struct SimRead(pub Shared);
pub struct SimWrite(pub Shared);

impl Drop for SimRead {
    fn drop(&mut self) {
        lock(&self.0).read_dropped = true;
    }
}
impl Drop for SimWrite {
    fn drop(&mut self) {
        lock(&self.0).write_dropped = true;
    }
}

impl AsyncRead for SimRead {
    fn poll_read(self: Pin<&mut Self>, cx: &mut Context<'_>, buf: &mut [u8]) -> Poll<io::Result<usize>> {
        let mut w = lock(&self.0);
        w.note_call();
        let call = w.read_calls;
        w.read_calls += 1;
        // reads "after shutdown was requested": only those of scheduling steps that began after the request (a request
        // made while a step is in progress - from another thread - cannot stop that step from finishing its reads)
        if w.shutdown_requested_at_step.is_none() || w.current_poll_started_after_shutdown { w.reads_after_mark += 1; }
        if w.read_error_fired {
            w.reads_after_read_error += 1;
        }
        if let RFault::ErrAtCall(n) = w.rfault {
            if n == call {
                w.cx.fault("read_error");
                w.cx.ev("read_err", call as u64, 0);
                w.read_error_fired = true;
                let kind = w.read_err_kind;
                return Poll::Ready(Err(io::Error::new(kind, "injected read error")));
            }
        }
        if buf.is_empty() {
            w.cx.probe("read_with_empty_buffer");
            w.empty_buf_reads += 1;
            w.cx.ev("read_empty_buf", 0, 0);
            return Poll::Ready(Ok(0));
        }
        if w.shutdown_in_read_call == Some(call) {
            if let Some(f) = w.mid_poll_shutdown.take() {
                let step = w.step;
                w.shutdown_requested_at_step = Some(step);
                // whether the connection counts as idle is decided when this step ends: the step may still complete a
                // preamble and start its handler (it began before the request)
                w.idle_at_shutdown = false;
                w.eval_idle_after_poll = true;
                w.reads_after_mark = 0;
                w.cx.fault("shutdown_requested");
                w.cx.probe("shutdown_inside_a_transport_read");
                w.cx.ev("shutdown_mid_poll", call as u64, 0);
                f();
            }
        }
        let limit = match w.rfault { RFault::EofAt(o) => o.min(w.avail), _ => w.avail };
        let have = limit - w.read_pos.min(limit);
        if have == 0 {
            let eof = match w.rfault { RFault::EofAt(o) => w.read_pos >= o, _ => false } || (w.peer_closed && w.read_pos >= w.sent);
            if eof {
                if matches!(w.rfault, RFault::EofAt(_)) { w.cx.fault("eof_injected"); }
                w.eof_reported = true;
                let rp = w.read_pos as u64;
                w.cx.ev("read_eof", rp, 0);
                return Poll::Ready(Ok(0));
            }
            w.read_waker = Some(cx.waker().clone());
            if !w.owed_triggers.is_empty() && w.suspend_violation.is_none() && (w.rec_bounds.is_empty() || w.rec_bounds.binary_search(&w.read_pos).is_ok()) {
                w.cx.probe("suspension_points_checked");
                let rp = w.read_pos;
                let owed = w.owed_triggers.iter().filter(|&&t| t <= rp).count();
                if w.replies_seen < owed {
                    let site = if w.handler_log.iter().any(|h| !h.finished) { "handler_blocked_in_read" } else if w.handler_log.is_empty() { "before_first_request" } else if w.handler_log.len() > w.end_requests { "closing_request" } else { "between_requests" };
                    let detail = format!("task suspends on the transport read after reading {rp} bytes: {owed} replies are owed for complete records already read, only {} are in the transport log", w.replies_seen);
                    w.suspend_violation = Some((site.to_string(), detail));
                }
            }
            w.cx.fault("read_pending_nodata");
            w.cx.ev("read_pending", 0, 0);
            return Poll::Pending;
        }
        if w.read_blocked {
            w.read_waker = Some(cx.waker().clone());
            return Poll::Pending;
        }
        let rp = w.knobs.read_pending;
        if rp > 0 && w.cx.ch.chance(rp, 16) {
            w.read_blocked = true;
            w.read_waker = Some(cx.waker().clone());
            w.cx.fault("read_pending_withdata");
            w.cx.ev("read_pending_d", 0, 0);
            return Poll::Pending;
        }
        let max = have.min(buf.len());
        let k = match w.knobs.read_style {
            0 => max,
            1 => 1,
            2 => w.cx.ch.range(1, max.min(4)),
            _ => w.cx.ch.range(1, max),
        };
        if k < max { w.cx.fault("short_read"); }
        if k == buf.len() { w.cx.probe("read_filled_buffer"); }
        let p = w.read_pos;
        buf[..k].copy_from_slice(&w.wire[p..p + k]);
        w.read_pos += k;
        w.cx.ev("read", k as u64, buf.len() as u64);
        Poll::Ready(Ok(k))
    }
}

impl SimWrite {
    fn do_write(&self, cx: &mut Context<'_>, bufs: &[&[u8]], vectored: bool) -> Poll<io::Result<usize>> {
        let mut w = lock(&self.0);
        w.note_call();
        let total: usize = bufs.iter().map(|b| b.len()).sum();
        let call = w.write_calls;
        w.write_calls += 1;
        if w.log.len() > (24 << 20) {
            // no script comes near this: a write loop that does not advance; stop it before memory runs out
            w.flooded = true;
            return Poll::Ready(Err(io::Error::new(io::ErrorKind::Other, "simulated transport: output limit exceeded")));
        }
        if w.write_failed_at.is_some() {
            w.writes_after_failure += 1;
        }
        match w.wfault {
            WFault::ErrAtCall(n) if n == call => {
                w.cx.fault("write_error");
                w.cx.ev("write_err", call as u64, 0);
                w.write_failed_at = Some(w.log.len());
                return Poll::Ready(Err(io::Error::new(io::ErrorKind::BrokenPipe, "injected write error")));
            }
            WFault::ZeroAtCall(n) if n == call => {
                w.cx.fault("zero_write");
                w.cx.ev("write_zero", call as u64, 0);
                w.write_failed_at = Some(w.log.len());
                return Poll::Ready(Ok(0));
            }
            _ => {}
        }
        if total == 0 {
            return Poll::Ready(Ok(0));
        }
        if w.write_blocked {
            w.write_waker = Some(cx.waker().clone());
            return Poll::Pending;
        }
        let wp = w.knobs.write_pending;
        if wp > 0 && w.cx.ch.chance(wp, 16) {
            w.write_blocked = true;
            w.write_waker = Some(cx.waker().clone());
            w.cx.fault("write_pending");
            w.cx.ev("write_pending", 0, 0);
            return Poll::Pending;
        }
        let k = match w.knobs.write_style {
            0 => total,
            1 => 1,
            2 => w.cx.ch.range(1, total.min(9)),
            _ => w.cx.ch.range(1, total),
        };
        if k < total { w.cx.fault("short_write"); }
        if vectored && bufs.len() == 3 {
            let h = bufs[0].len();
            let p = bufs[1].len();
            if k < h { w.cx.probe("write_cut_in_header"); }
            else if k == h && (p > 0 || !bufs[2].is_empty()) { w.cx.probe("write_cut_at_seam"); }
            else if k > h + p && k < total { w.cx.probe("write_cut_in_padding"); }
        }
        let mut left = k;
        for b in bufs {
            let n = left.min(b.len());
            w.append_log(&b[..n]);
            left -= n;
            if left == 0 { break; }
        }
        w.cx.ev(if vectored { "writev" } else { "write" }, k as u64, total as u64);
        Poll::Ready(Ok(k))
    }
}

impl AsyncWrite for SimWrite {
    fn poll_write(self: Pin<&mut Self>, cx: &mut Context<'_>, buf: &[u8]) -> Poll<io::Result<usize>> {
        self.do_write(cx, &[buf], false)
    }
    fn poll_write_vectored(self: Pin<&mut Self>, cx: &mut Context<'_>, bufs: &[IoSlice<'_>]) -> Poll<io::Result<usize>> {
        let first_only = lock(&self.0).knobs.vectored_first_only;
        if first_only {
            // what AsyncWrite's default poll_write_vectored does
            let b: &[u8] = bufs.iter().find(|b| !b.is_empty()).map_or(&[][..], |b| &**b);
            lock(&self.0).cx.probe("vectored_write_first_slice_only");
            return self.do_write(cx, &[b], false);
        }
        let v: Vec<&[u8]> = bufs.iter().map(|b| &**b).collect();
        self.do_write(cx, &v, true)
    }
    fn poll_flush(self: Pin<&mut Self>, cx: &mut Context<'_>) -> Poll<io::Result<()>> {
        let mut w = lock(&self.0);
        w.note_call();
        let call = w.flush_calls;
        w.flush_calls += 1;
        if w.wfault == WFault::FlushErrAtCall(call) {
            w.cx.fault("flush_error");
            w.cx.ev("flush_err", call as u64, 0);
            // (not a failed *write*: no record is torn and no lock is kept, sibling writers may go on until the handler
            // has propagated the error; termination and well-formedness are still checked)
            return Poll::Ready(Err(io::Error::new(io::ErrorKind::BrokenPipe, "injected flush error")));
        }
        if w.write_blocked {
            w.write_waker = Some(cx.waker().clone());
            return Poll::Pending;
        }
        let wp = w.knobs.write_pending;
        if wp > 0 && w.cx.ch.chance(wp, 16) {
            // a flush that is not ready yet: the caller has to keep whatever exclusion it holds
            w.write_blocked = true;
            w.write_waker = Some(cx.waker().clone());
            w.cx.fault("flush_pending");
            w.cx.ev("flush_pending", 0, 0);
            return Poll::Pending;
        }
        w.cx.ev("flush", 0, 0);
        Poll::Ready(Ok(()))
    }
    fn poll_close(self: Pin<&mut Self>, _cx: &mut Context<'_>) -> Poll<io::Result<()>> {
        Poll::Ready(Ok(()))
    }
}

// ------------------------------------------------------------------ executor

pub struct WakeFlag {
    pub flag: AtomicBool,
    pub count: AtomicU64,
}

impl WakeFlag {
    pub fn new(initial: bool) -> Arc<WakeFlag> {
        Arc::new(WakeFlag { flag: AtomicBool::new(initial), count: AtomicU64::new(0) })
    }
    pub fn take(&self) -> bool {
        self.flag.swap(false, Ordering::SeqCst)
    }
    pub fn is_set(&self) -> bool {
        self.flag.load(Ordering::SeqCst)
    }
    pub fn wakes(&self) -> u64 {
        self.count.load(Ordering::SeqCst)
    }
}

impl Wake for WakeFlag {
    fn wake(self: Arc<Self>) {
        self.wake_by_ref();
    }
    fn wake_by_ref(self: &Arc<Self>) {
        self.flag.store(true, Ordering::SeqCst);
        self.count.fetch_add(1, Ordering::SeqCst);
    }
}

pub struct Task {
    pub name: &'static str,
    pub fut: Option<Pin<Box<dyn Future<Output = ()>>>>,
    pub flag: Arc<WakeFlag>,
    pub polls: u64,
    pub panicked: Option<String>,
}

impl Task {
    pub fn new(name: &'static str, fut: Pin<Box<dyn Future<Output = ()>>>) -> Task {
        Task { name, fut: Some(fut), flag: WakeFlag::new(true), polls: 0, panicked: None }
    }
    pub fn done(&self) -> bool {
        self.fut.is_none()
    }
}

#[derive(Debug, Clone, Copy, PartialEq, Eq)]
pub enum Ev {
    Poll(usize),
    Spurious(usize),
    PeerSend,
    Deliver,
    ReadUnblock,
    WriteUnblock,
    PeerClose,
    Control(usize),
}

pub struct Exec {
    pub world: Shared,
    pub tasks: Vec<Task>,
    pub step_cap: u64,
    /// Optional budget for the next `run` call (C13 interleaves connection steps with runner operations).
    pub budget: Option<u64>,
}

pub enum RunEnd {
    Quiescent,
    StepCap,
    /// The step budget given to this call of `run` is used up (more events are enabled).
    Paused,
}

impl Exec {
    pub fn new(world: Shared) -> Exec {
        Exec { world, tasks: Vec::new(), step_cap: 400_000, budget: None }
    }

    pub fn poll_task(&mut self, i: usize) {
        let t = &mut self.tasks[i];
        let Some(fut) = t.fut.as_mut() else { return };
        let fresh = { let mut w = lock(&self.world); let f = w.knobs.fresh_wakers; if f && t.polls > 0 { w.cx.probe("fresh_waker_per_poll"); } f };
        if fresh { t.flag = WakeFlag::new(false); } else { t.flag.take(); }
        t.polls += 1;
        let waker = Waker::from(t.flag.clone());
        let mut cx = Context::from_waker(&waker);
        {
            let mut w = lock(&self.world);
            w.current_poll_started_after_shutdown = w.shutdown_requested_at_step.is_some();
            w.calls_this_poll = 0;
        }
        let r = std::panic::catch_unwind(std::panic::AssertUnwindSafe(|| fut.as_mut().poll(&mut cx)));
        {
            let mut w = lock(&self.world);
            if w.eval_idle_after_poll {
                w.eval_idle_after_poll = false;
                w.idle_at_shutdown = w.handler_log.iter().all(|h| h.finished) && w.handler_log.len() <= w.end_requests;
                if w.idle_at_shutdown && w.freeze_if_idle { w.peer_frozen = true; w.cx.probe("client_frozen_at_shutdown"); }
            }
        }
        match r {
            Ok(Poll::Ready(())) => { t.fut = None; }
            Ok(Poll::Pending) => {}
            Err(_) => {
                t.panicked = Some(last_panic());
                // dropping the future runs the destructors of everything it owns (unwinding already did for the frame)
                t.fut = None;
            }
        }
    }

    /// Environment events that are currently enabled.
    pub fn enabled_env(&self) -> Vec<Ev> {
        let w = lock(&self.world);
        let mut v = Vec::new();
        if w.peer_frozen {
            if w.write_blocked { v.push(Ev::WriteUnblock); }
            return v;
        }
        // (once the connection task has finished nobody reads any more: further deliveries would only burn steps)
        let conn_done = self.tasks.first().map_or(false, |t| t.done());
        if w.avail < w.sent && !conn_done { v.push(Ev::Deliver); }
        if w.gate_open() && !w.peer_closed { v.push(Ev::PeerSend); }
        else if w.next_seg < w.segs.len() && matches!(w.segs[w.next_seg].gate, Gate::AfterReplies(_)) { drop(w); let mut w = lock(&self.world); w.cx.fault("peer_withhold"); return self.enabled_env_rest(v, &w); }
        if w.read_blocked { v.push(Ev::ReadUnblock); }
        if w.write_blocked { v.push(Ev::WriteUnblock); }
        if !w.peer_closed && w.close_when_done && w.next_seg >= w.segs.len() && w.avail >= w.sent { v.push(Ev::PeerClose); }
        v
    }

    fn enabled_env_rest(&self, mut v: Vec<Ev>, w: &World) -> Vec<Ev> {
        if w.read_blocked { v.push(Ev::ReadUnblock); }
        if w.write_blocked { v.push(Ev::WriteUnblock); }
        if !w.peer_closed && w.close_when_done && w.next_seg >= w.segs.len() && w.avail >= w.sent { v.push(Ev::PeerClose); }
        v
    }

    pub fn do_env(&mut self, e: Ev) {
        let mut wake: Option<Waker> = None;
        {
            let mut w = lock(&self.world);
            match e {
                Ev::PeerSend => {
                    let s = w.segs[w.next_seg].clone();
                    w.next_seg += 1;
                    w.sent = s.end;
                    w.cx.ev("peer_send", s.end as u64, 0);
                }
                Ev::Deliver => {
                    let max = w.sent - w.avail;
                    let k = match w.knobs.deliver_style {
                        0 => max,
                        1 => w.cx.ch.range(1, max.min(3)),
                        _ => w.cx.ch.range(1, max),
                    };
                    w.avail += k;
                    w.cx.ev("deliver", k as u64, 0);
                    wake = w.read_waker.take();
                }
                Ev::ReadUnblock => {
                    w.read_blocked = false;
                    w.cx.ev("read_unblock", 0, 0);
                    wake = w.read_waker.take();
                }
                Ev::WriteUnblock => {
                    w.write_blocked = false;
                    w.cx.ev("write_unblock", 0, 0);
                    wake = w.write_waker.take();
                }
                Ev::PeerClose => {
                    w.peer_closed = true;
                    w.cx.ev("peer_close", 0, 0);
                    wake = w.read_waker.take();
                }
                _ => {}
            }
        }
        if let Some(wk) = wake {
            wk.wake();
        }
    }

    /// Runs until quiescence (no runnable task, no enabled environment event) or the step cap.
    /// `controls`: scenario-specific events (index, enabled?) executed through the callback.
    pub fn run(&mut self, control: &mut dyn FnMut(&mut Exec, Option<usize>) -> Vec<usize>) -> RunEnd {
        loop {
            let ctl = control(self, None);
            let mut evs: Vec<Ev> = Vec::new();
            for (i, t) in self.tasks.iter().enumerate() {
                if !t.done() && t.flag.is_set() { evs.push(Ev::Poll(i)); }
            }
            evs.extend(self.enabled_env());
            for c in ctl { evs.push(Ev::Control(c)); }
            if evs.is_empty() {
                return RunEnd::Quiescent;
            }
            if let Some(b) = &mut self.budget {
                if *b == 0 { return RunEnd::Paused; }
                *b -= 1;
            }
            let (spur, pick) = {
                let mut w = lock(&self.world);
                w.step += 1;
                {
                    // abstract state of the simulated system at this scheduling step
                    let cls = |n: usize| -> u64 { if n == 0 { 0 } else if n < 8 { 1 } else if n < 64 { 2 } else { 3 } };
                    let in_handler = w.handler_log.iter().any(|h| !h.finished);
                    let closing = !in_handler && w.handler_log.len() > w.end_requests;
                    let h = fnv_u64(evs.len() as u64, fnv_u64(u64::from(w.read_blocked), fnv_u64(u64::from(w.write_blocked),
                        fnv_u64(cls(w.avail - w.read_pos.min(w.avail)), fnv_u64(cls(w.sent - w.avail), fnv_u64(u64::from(w.gate_open()),
                        fnv_u64(u64::from(in_handler), fnv_u64(u64::from(closing), fnv_u64(cls(w.log.len() - w.decoded_upto),
                        fnv_u64(u64::from(w.read_waker.is_some()), fnv_u64(u64::from(w.write_waker.is_some()), fnv_u64(u64::from(w.shutdown_requested_at_step.is_some()), 0x53))))))))))));
                    w.cx.state(h);
                }
                if w.step > self.step_cap { return RunEnd::StepCap; }
                let sp = w.knobs.spurious_polls;
                let spur = sp > 0 && w.cx.ch.chance(sp, 64);
                let n = evs.len() as u32;
                let pick = if n > 1 { w.cx.ch.pick(n) as usize } else { 0 };
                if n > 1 && pick > 0 { w.cx.nontrivial = true; }
                (spur, pick)
            };
            if spur {
                // a spurious poll of some unfinished task (legal for any future)
                let live: Vec<usize> = self.tasks.iter().enumerate().filter(|(_, t)| !t.done()).map(|(i, _)| i).collect();
                if !live.is_empty() {
                    let i = { let mut w = lock(&self.world); let i = live[w.cx.ch.pick(live.len() as u32) as usize]; w.cx.fault("spurious_poll"); w.cx.ev("spurious_poll", i as u64, 0); i };
                    self.poll_task(i);
                    continue;
                }
            }
            match evs[pick] {
                Ev::Poll(i) => {
                    { let mut w = lock(&self.world); w.cx.ev("poll", i as u64, 0); }
                    self.poll_task(i);
                }
                Ev::Control(c) => { control(self, Some(c)); }
                e => self.do_env(e),
            }
        }
    }
}

// ------------------------------------------------------------------ sub-task join inside a handler

struct SubWake {
    flag: AtomicBool,
    parent: Mutex<Option<Waker>>,
}

impl Wake for SubWake {
    fn wake(self: Arc<Self>) {
        self.wake_by_ref();
    }
    fn wake_by_ref(self: &Arc<Self>) {
        self.flag.store(true, Ordering::SeqCst);
        let p = self.parent.lock().unwrap_or_else(std::sync::PoisonError::into_inner).clone();
        if let Some(w) = p {
            w.wake_by_ref();
        }
    }
}

/// Polls children only when their own waker fired (strictness inside the handler); the order in
/// which woken children are polled is a chooser decision.
pub struct Join<'a, T> {
    children: Vec<(Option<Pin<Box<dyn Future<Output = T> + Send + 'a>>>, Arc<SubWake>)>,
    results: Vec<Option<T>>,
    world: Shared,
    spurious_done: bool,
    /// try_join-like behaviour: when a child finishes with a result for which this returns true, the remaining
    /// children are dropped where they stand (their results are missing from the output).
    pub fail_fast: Option<fn(&T) -> bool>,
    stopping: bool,
}

impl<'a, T> Join<'a, T> {
    pub fn new(world: Shared, futs: Vec<Pin<Box<dyn Future<Output = T> + Send + 'a>>>) -> Self {
        let n = futs.len();
        Join {
            children: futs.into_iter().map(|f| (Some(f), Arc::new(SubWake { flag: AtomicBool::new(true), parent: Mutex::new(None) }))).collect(),
            results: (0..n).map(|_| None).collect(),
            world,
            spurious_done: false,
            fail_fast: None,
            stopping: false,
        }
    }
}

impl<T: Unpin> Future for Join<'_, T> {
    type Output = Vec<T>;
    fn poll(self: Pin<&mut Self>, cx: &mut Context<'_>) -> Poll<Vec<T>> {
        let this = self.get_mut();
        this.spurious_done = false;
        for (_, sw) in &this.children {
            *sw.parent.lock().unwrap_or_else(std::sync::PoisonError::into_inner) = Some(cx.waker().clone());
        }
        loop {
            let mut ready: Vec<usize> = this.children.iter().enumerate()
                .filter(|(_, (f, sw))| f.is_some() && sw.flag.load(Ordering::SeqCst)).map(|(i, _)| i).collect();
            if ready.is_empty() {
                // rarely: a spurious poll of a child that was not woken (legal for any future), at most once per poll
                let live: Vec<usize> = this.children.iter().enumerate().filter(|(_, (f, _))| f.is_some()).map(|(i, _)| i).collect();
                let mut w = lock(&this.world);
                let sp = w.knobs.spurious_polls;
                if !this.spurious_done && sp > 0 && !live.is_empty() && w.cx.ch.chance(sp, 32) {
                    let i = live[w.cx.ch.pick(live.len() as u32) as usize];
                    w.cx.fault("spurious_child_poll");
                    ready.push(i);
                    this.spurious_done = true;
                } else {
                    break;
                }
            }
            let i = {
                let mut w = lock(&this.world);
                let k = if ready.len() > 1 { w.cx.ch.pick(ready.len() as u32) as usize } else { 0 };
                if k > 0 { w.cx.nontrivial = true; }
                w.cx.ev("sub_poll", ready[k] as u64, 0);
                ready[k]
            };
            let fresh = lock(&this.world).knobs.fresh_wakers;
            let (f, sw) = &mut this.children[i];
            if fresh {
                // a waker of its own for this poll of the child; the previous one no longer schedules it
                *sw = Arc::new(SubWake { flag: AtomicBool::new(false), parent: Mutex::new(Some(cx.waker().clone())) });
            } else {
                sw.flag.store(false, Ordering::SeqCst);
            }
            let waker = Waker::from(sw.clone());
            let mut scx = Context::from_waker(&waker);
            if let Poll::Ready(v) = f.as_mut().expect("live").as_mut().poll(&mut scx) {
                let stop = this.fail_fast.map_or(false, |p| p(&v));
                this.results[i] = Some(v);
                *f = None;
                if stop { this.stopping = true; }
            }
        }
        if this.stopping {
            // the error is propagated at the end of this round: siblings that were woken in the meantime (e.g. by a
            // lock the failed writer let go of) have had their turn above; the rest are dropped where they stand
            let dropped = this.children.iter().filter(|(f, _)| f.is_some()).count();
            if dropped > 0 { lock(&this.world).cx.probe("sibling_subtasks_dropped_on_error"); }
            for (f, _) in this.children.iter_mut() { *f = None; }
        }
        if this.children.iter().all(|(f, _)| f.is_none()) {
            Poll::Ready(this.results.iter_mut().filter_map(Option::take).collect())
        } else {
            Poll::Pending
        }
    }
}

// Join holds non-Send Arc<SubWake>? Arc<SubWake> is Send+Sync (AtomicBool + Mutex<Option<Waker>>).
