//! D4: sink simulator for the CGI response header writers (C20).
//! The destination `io::Write` accepts any 0..=len bytes per call, returns `Interrupted`,
//! and runs out of space at an enumerated capacity.

use crate::core::*;
use crate::gen::gen_bytes;
use crate::{vcheck, vfail};
use fastcgi_server::cgi::response;
use std::io::{self, Write};

#[derive(Clone, Copy, PartialEq, Eq, Debug)]
enum FullMode {
    /// Like `&mut [u8]`: a full sink accepts 0 bytes.
    Zero,
    /// Like a full disk: an error.
    Error,
}

struct Sink {
    cap: usize,
    acc: Vec<u8>,
    /// Behaviour per write call (cycled): 0 = accept all that fits, 1..=200 = accept at most that many, 255 = Interrupted.
    script: Vec<u8>,
    call: usize,
    full: FullMode,
    interrupts: u32,
    shorts: u32,
    refused: u32,
    vectored: u32,
}

impl Write for Sink {
    fn write(&mut self, buf: &[u8]) -> io::Result<usize> {
        if buf.is_empty() {
            return Ok(0);
        }
        let b = self.script[self.call % self.script.len()];
        self.call += 1;
        if b == 255 && self.interrupts < 64 {
            self.interrupts += 1;
            return Err(io::ErrorKind::Interrupted.into());
        }
        let room = self.cap - self.acc.len();
        if room == 0 {
            self.refused += 1;
            return match self.full {
                FullMode::Zero => Ok(0),
                FullMode::Error => Err(io::Error::new(io::ErrorKind::Other, "sink full")),
            };
        }
        let mut n = buf.len().min(room);
        if b != 0 && b != 255 && usize::from(b) < n {
            n = usize::from(b);
            self.shorts += 1;
        }
        self.acc.extend_from_slice(&buf[..n]);
        Ok(n)
    }
    fn write_vectored(&mut self, bufs: &[io::IoSlice<'_>]) -> io::Result<usize> {
        // a real scatter write: may end in the middle of any slice while the sink still has room
        let total: usize = bufs.iter().map(|b| b.len()).sum();
        if total == 0 { return Ok(0); }
        let b = self.script[self.call % self.script.len()];
        self.call += 1;
        if b == 255 && self.interrupts < 64 {
            self.interrupts += 1;
            return Err(io::ErrorKind::Interrupted.into());
        }
        let room = self.cap - self.acc.len();
        if room == 0 {
            self.refused += 1;
            return match self.full {
                FullMode::Zero => Ok(0),
                FullMode::Error => Err(io::Error::new(io::ErrorKind::Other, "sink full")),
            };
        }
        let mut n = total.min(room);
        if b != 0 && b != 255 && usize::from(b) < n { n = usize::from(b); self.shorts += 1; }
        let mut left = n;
        for s in bufs {
            let k = left.min(s.len());
            self.acc.extend_from_slice(&s[..k]);
            left -= k;
            if left == 0 { break; }
        }
        self.vectored += 1;
        Ok(n)
    }
    fn flush(&mut self) -> io::Result<()> {
        Ok(())
    }
}

fn gen_token(cx: &mut Ctx, lo: usize, hi: usize) -> String {
    let len = cx.ch.range(lo, hi);
    let alphabet = b"abcdefghijklmnopqrstuvwxyz0123456789-_";
    (0..len).map(|_| alphabet[cx.ch.pick(alphabet.len() as u32) as usize] as char).collect()
}

fn no_newline(mut v: Vec<u8>) -> Vec<u8> {
    for b in &mut v {
        if *b == b'\n' || *b == b'\r' { *b = b' '; }
    }
    v
}

enum Call {
    Headers { code: u16, headers: Vec<(Vec<u8>, Vec<u8>)> },
    Http { code: u16, headers: Vec<(String, Vec<u8>)> },
    Redirect { loc: String },
}

fn expected(call: &Call) -> Vec<u8> {
    let status_line = |code: u16| -> Vec<u8> {
        let sc = http::StatusCode::from_u16(code).expect("code in 100..=999");
        let reason = sc.canonical_reason().unwrap_or("Custom");
        format!("Status: {code} {reason}\n").into_bytes()
    };
    match call {
        Call::Headers { code, headers } => {
            let mut e = status_line(*code);
            for (n, v) in headers {
                e.extend_from_slice(n);
                e.extend_from_slice(b": ");
                e.extend_from_slice(v);
                e.push(b'\n');
            }
            e.push(b'\n');
            e
        }
        Call::Http { code, .. } => status_line(*code), // completed by the caller from the built response
        Call::Redirect { loc } => format!("Location: {loc}\n\n").into_bytes(),
    }
}

pub const D4_FAULTS: &[&str] = &["sink_capacity_exhausted_zero", "sink_capacity_exhausted_error", "sink_short_write", "sink_interrupted", "slice_too_small"];
pub const D4_PROBES: &[&str] = &["hundreds_of_header_lines", "header_value_over_64k", "write_headers", "http_headers", "simple_redirect", "local_redirect_with_fragment", "custom_reason", "zero_headers", "empty_name_or_value", "capacity_exact"];

pub fn c20(cx: &mut Ctx) -> VResult {
    cx.declare(D4_FAULTS, D4_PROBES);
    // all status codes over the batch: each run covers a slice of 9 consecutive codes
    let base = 100 + 9 * cx.ch.pick(100) as u16;
    let kind = cx.ch.weighted(&[5, 3, 2]);
    let codes: Vec<u16> = if kind == 2 { vec![0] } else { (base..base + 9).collect() };
    for code in codes {
        let call = match kind {
            0 => {
                // scale: rarely hundreds of header lines or one very long value (capacities are then sampled, see below)
                let scale = cx.ch.chance(1, 60);
                let n = if scale && cx.ch.chance(1, 2) { cx.probe("hundreds_of_header_lines"); cx.ch.range(260, 900) } else { cx.ch.weighted(&[1, 2, 2, 1]) };
                if n == 0 { cx.probe("zero_headers"); }
                let mut headers = Vec::new();
                if scale && n < 10 {
                    let l = cx.ch.one_of(&[65535usize, 65536, 70000, 200_000]);
                    cx.probe("header_value_over_64k");
                    headers.push((b"x-large".to_vec(), no_newline(gen_bytes(cx, l))));
                }
                for _ in 0..n {
                    let nl = cx.ch.weighted(&[1, 4, 1]);
                    let name = match nl { 0 => Vec::new(), 1 => gen_token(cx, 1, 14).into_bytes(), _ => { let l = cx.ch.range(1, 40); no_newline(gen_bytes(cx, l)) } };
                    let vl = cx.ch.weighted(&[1, 4, 1]);
                    let val = match vl { 0 => Vec::new(), 1 => { let l = cx.ch.range(1, 30); no_newline(gen_bytes(cx, l)) }, _ => { let l = cx.ch.range(30, 300); no_newline(gen_bytes(cx, l)) } };
                    if name.is_empty() || val.is_empty() { cx.probe("empty_name_or_value"); }
                    if name.eq_ignore_ascii_case(b"status") { continue; }
                    headers.push((name, val));
                }
                cx.probe("write_headers");
                Call::Headers { code, headers }
            }
            1 => {
                let n = cx.ch.range(0, 4);
                let mut headers = Vec::new();
                for _ in 0..n {
                    let name = gen_token(cx, 1, 12);
                    if name.eq_ignore_ascii_case("status") { continue; }
                    let l = cx.ch.range(0, 40);
                    let val: Vec<u8> = gen_bytes(cx, l).into_iter().map(|b| 0x20 + (b % 0x5f)).collect();
                    headers.push((name, val));
                }
                cx.probe("http_headers");
                Call::Http { code, headers }
            }
            _ => {
                let l = cx.ch.weighted(&[1, 4, 2, 3]);
                let loc: String = match l {
                    0 => String::new(),
                    1 => format!("/{}?q={}", gen_token(cx, 0, 20), gen_token(cx, 0, 8)),
                    2 => format!("https://{}.example/{}\u{e9}#frag", gen_token(cx, 6, 6), gen_token(cx, 0, 200)),
                    _ => {
                        // any mix of URL punctuation, in any position (local paths with fragments, "//host", lone '#', ...)
                        const AB: &[u8] = b"/#?&=%.:@;+ -_~!$'()*,[]ab0Z";
                        let n = cx.ch.range(0, 40);
                        let mut s = String::new();
                        if cx.ch.chance(2, 3) { s.push('/'); }
                        for _ in 0..n { s.push(AB[cx.ch.pick(AB.len() as u32) as usize] as char); }
                        if s.starts_with('/') && s.contains('#') { cx.probe("local_redirect_with_fragment"); }
                        s
                    }
                };
                cx.probe("simple_redirect");
                Call::Redirect { loc }
            }
        };
        cx.state(u64::from(code));
        // Build the http::Response once (for the Http kind) and the expected bytes.
        let resp = if let Call::Http { code, headers } = &call {
            let mut b = http::Response::builder().status(*code);
            for (n, v) in headers {
                b = b.header(n.as_str(), http::HeaderValue::from_bytes(v).expect("visible ascii"));
            }
            Some(b.body(()).expect("response"))
        } else {
            None
        };
        let mut exp = expected(&call);
        if let Some(r) = &resp {
            for (n, v) in r.headers().iter() {
                exp.extend_from_slice(n.as_str().as_bytes());
                exp.extend_from_slice(b": ");
                exp.extend_from_slice(v.as_bytes());
                exp.push(b'\n');
            }
            exp.push(b'\n');
        }
        if code >= 100 && http::StatusCode::from_u16(code).map_or(false, |s| s.canonical_reason().is_none()) { cx.probe("custom_reason"); }
        if cx.want_sample && cx.sample.is_none() {
            cx.sample = Some(format!("kind={kind} code={code} expected={:?} capacities 0..={}", String::from_utf8_lossy(&exp[..exp.len().min(120)]), exp.len() + 1));
        }
        let invoke = |w: &mut dyn Write| -> io::Result<usize> {
            match &call {
                Call::Headers { code, headers } => {
                    let sc = http::StatusCode::from_u16(*code).expect("code");
                    response::write_headers(w, sc, headers.iter().map(|(n, v)| (&n[..], &v[..])))
                }
                Call::Http { .. } => response::http_headers(w, resp.as_ref().expect("resp")),
                Call::Redirect { loc } => response::simple_redirect(w, loc),
            }
        };
        // fault enumeration: every capacity 0..=len+1, each with a seeded behaviour script
        let script_len = cx.ch.range(1, 6);
        let mut script: Vec<u8> = Vec::new();
        for _ in 0..script_len {
            script.push(match cx.ch.weighted(&[3, 2, 1]) { 0 => 0, 1 => cx.ch.range(1, 12) as u8, _ => 255 });
        }
        let full = if cx.ch.chance(1, 2) { FullMode::Error } else { FullMode::Zero };
        // every capacity for ordinary responses; for the large ones the first and last 80 and ~150 in between
        let caps: Vec<usize> = if exp.len() <= 4000 { (0..=exp.len() + 1).collect() } else {
            let mut v: Vec<usize> = (0..80).collect();
            let step = (exp.len() / 150).max(1);
            v.extend((80..exp.len().saturating_sub(80)).step_by(step));
            v.extend(exp.len().saturating_sub(80)..=exp.len() + 1);
            v
        };
        for cap in caps {
            let mut sink = Sink { cap, acc: Vec::new(), script: script.clone(), call: 0, full, interrupts: 0, shorts: 0, refused: 0, vectored: 0 };
            let res = guard(|| invoke(&mut sink));
            let res = match res { Ok(r) => r, Err(p) => vfail!("panic", "cgi::response", "writer panicked with capacity {cap}: {p}") };
            cx.ev("sink_run", cap as u64, exp.len() as u64);
            if sink.shorts > 0 { cx.fault("sink_short_write"); }
            if sink.interrupts > 0 { cx.fault("sink_interrupted"); }
            if cap >= exp.len() {
                if cap == exp.len() { cx.probe("capacity_exact"); }
                match res {
                    Ok(n) => {
                        vcheck!(sink.acc == exp, "c20_grammar", "wrote {:?}, expected {:?}", String::from_utf8_lossy(&sink.acc), String::from_utf8_lossy(&exp));
                        vcheck!(n == exp.len(), "c20_count", "returned {n} but wrote {} bytes", exp.len());
                    }
                    Err(e) => {
                        // a sink that interrupts forever may legitimately surface; ours is bounded, so any error is wrong
                        vfail!("c20_spurious_error", "", "sufficient capacity {cap} >= {} but the writer failed: {e}", exp.len());
                    }
                }
            } else {
                cx.fault(if full == FullMode::Zero { "sink_capacity_exhausted_zero" } else { "sink_capacity_exhausted_error" });
                match res {
                    Ok(n) => vfail!("c20_success_on_full_sink", "", "destination capacity {cap} < {} bytes needed, but the writer returned Ok({n}); accepted {:?}", exp.len(), String::from_utf8_lossy(&sink.acc)),
                    Err(_) => {
                        vcheck!(exp.starts_with(&sink.acc), "c20_prefix", "on failure the accepted bytes {:?} are not a prefix of the expected output", String::from_utf8_lossy(&sink.acc));
                    }
                }
            }
        }
        // bounded &mut [u8] destinations: every length 0..=len
        for cap in (0..=exp.len()).rev().take(exp.len().min(40) + 1) {
            let mut store = vec![0xAAu8; cap];
            let res = {
                let mut slice: &mut [u8] = &mut store[..];
                let r = guard(|| invoke(&mut slice));
                let rem = slice.len();
                r.map(|x| (x, rem))
            };
            let (res, rem) = match res { Ok(v) => v, Err(p) => vfail!("panic", "cgi::response", "writer panicked on &mut [u8] of {cap}: {p}") };
            let written = cap - rem;
            if cap >= exp.len() {
                vcheck!(matches!(res, Ok(n) if n == exp.len()) && store[..written] == exp[..], "c20_grammar", "slice destination of {cap}: result {res:?}");
            } else {
                cx.fault("slice_too_small");
                vcheck!(res.is_err(), "c20_success_on_full_sink", "slice of {cap} < {} bytes but writer returned {res:?}", exp.len());
                vcheck!(exp.starts_with(&store[..written]), "c20_prefix", "slice holds bytes that are not a prefix of the expected output");
            }
        }
    }
    Ok(())
}
