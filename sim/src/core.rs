//! Core of the simulator: the single choice sequence, run context, statistics.
//!
//! Every decision of every simulator component is drawn through `Chooser`.
//! In record mode the values come from one xoshiro256** PRNG seeded from
//! (VERIF_SEED, property, run index); in replay mode from a recorded list.
//! Nothing else (clock, addresses, hash-map order, thread ids) feeds a decision.

use std::collections::{BTreeMap, HashSet};

pub const DEFAULT_SEED: u64 = 0x5EED_FC61_2026_0925;

#[derive(Clone)]
pub struct Rng {
    s: [u64; 4],
}

fn splitmix(x: &mut u64) -> u64 {
    *x = x.wrapping_add(0x9E37_79B9_7F4A_7C15);
    let mut z = *x;
    z = (z ^ (z >> 30)).wrapping_mul(0xBF58_476D_1CE4_E5B9);
    z = (z ^ (z >> 27)).wrapping_mul(0x94D0_49BB_1331_11EB);
    z ^ (z >> 31)
}

impl Rng {
    pub fn new(seed: u64) -> Self {
        let mut x = seed;
        let s = [splitmix(&mut x), splitmix(&mut x), splitmix(&mut x), splitmix(&mut x)];
        Rng { s }
    }
    pub fn next(&mut self) -> u64 {
        let r = self.s[1].wrapping_mul(5).rotate_left(7).wrapping_mul(9);
        let t = self.s[1] << 17;
        self.s[2] ^= self.s[0];
        self.s[3] ^= self.s[1];
        self.s[1] ^= self.s[2];
        self.s[0] ^= self.s[3];
        self.s[2] ^= t;
        self.s[3] = self.s[3].rotate_left(45);
        r
    }
}

pub fn mix(seed: u64, prop: &str, run: u64) -> u64 {
    let mut h = fnv(prop.as_bytes(), 0xcbf2_9ce4_8422_2325);
    h ^= seed.rotate_left(17);
    h = h.wrapping_mul(0x1000_0000_01b3);
    h ^= run.wrapping_mul(0x9E37_79B9_7F4A_7C15);
    let mut x = h;
    splitmix(&mut x)
}

pub fn fnv(data: &[u8], mut h: u64) -> u64 {
    for &b in data {
        h ^= u64::from(b);
        h = h.wrapping_mul(0x0000_0100_0000_01b3);
    }
    h
}

pub fn fnv_u64(v: u64, h: u64) -> u64 {
    fnv(&v.to_le_bytes(), h)
}

/// The one source of decisions. `pick(n)` returns 0..n; by convention 0 is the
/// simplest alternative (no fault, whole buffer, smallest size, same task).
pub struct Chooser {
    rng: Option<Rng>,
    replay: Vec<u32>,
    pos: usize,
    pub log: Vec<u32>,
    pub keep_log: bool,
}

impl Chooser {
    pub fn record(seed: u64) -> Self {
        Chooser { rng: Some(Rng::new(seed)), replay: Vec::new(), pos: 0, log: Vec::new(), keep_log: true }
    }
    pub fn replay(list: Vec<u32>) -> Self {
        Chooser { rng: None, replay: list, pos: 0, log: Vec::new(), keep_log: true }
    }
    /// Uniform-ish pick in 0..n (n >= 1).
    pub fn pick(&mut self, n: u32) -> u32 {
        debug_assert!(n >= 1);
        let v = if n <= 1 {
            0
        } else if let Some(r) = &mut self.rng {
            (r.next() % u64::from(n)) as u32
        } else {
            let raw = self.replay.get(self.pos).copied().unwrap_or(0);
            raw % n
        };
        if n > 1 {
            self.pos += 1;
            if self.keep_log {
                self.log.push(v);
            }
            // safety net against a runaway generator loop (a harness bug, never a property violation)
            if self.pos > 50_000_000 {
                panic!("harness: more than 50M choices drawn in one run");
            }
        }
        v
    }
    /// True with probability num/den; false is the "simple" outcome (value 0).
    pub fn chance(&mut self, num: u32, den: u32) -> bool {
        // value 0 must mean false: draw in 0..den, true iff value >= den-num
        let v = self.pick(den);
        v >= den - num.min(den) && num > 0
    }
    /// Inclusive range lo..=hi, lo is simplest.
    pub fn range(&mut self, lo: usize, hi: usize) -> usize {
        if hi <= lo {
            return lo;
        }
        let span = (hi - lo + 1).min(u32::MAX as usize) as u32;
        lo + self.pick(span) as usize
    }
    /// Weighted index; index 0 should be the simplest alternative.
    pub fn weighted(&mut self, w: &[u32]) -> usize {
        let total: u32 = w.iter().sum();
        debug_assert!(total > 0);
        // to keep value 0 -> index 0, map cumulative ranges in order
        let v = self.pick(total);
        let mut acc = 0;
        for (i, &x) in w.iter().enumerate() {
            acc += x;
            if v < acc {
                return i;
            }
        }
        w.len() - 1
    }
    pub fn one_of<T: Copy>(&mut self, xs: &[T]) -> T {
        xs[self.pick(xs.len() as u32) as usize]
    }
    pub fn byte(&mut self) -> u8 {
        self.pick(256) as u8
    }
    pub fn position(&self) -> usize {
        self.pos
    }
}

#[derive(Debug, Clone)]
pub struct Violation {
    /// Oracle identifier: stable class name, used for minimisation and known-finding match.
    pub oracle: String,
    /// Site / sub-class (e.g. suspension site). Part of the class key.
    pub site: String,
    pub detail: String,
}

impl Violation {
    pub fn new(oracle: &str, site: &str, detail: String) -> Self {
        Violation { oracle: oracle.to_string(), site: site.to_string(), detail }
    }
    pub fn key(&self) -> String {
        if self.site.is_empty() { self.oracle.clone() } else { format!("{}@{}", self.oracle, self.site) }
    }
}

pub type VResult = Result<(), Violation>;

#[macro_export]
macro_rules! vfail {
    ($oracle:expr, $site:expr, $($arg:tt)*) => {
        return Err($crate::core::Violation::new($oracle, $site, format!($($arg)*)))
    };
}

#[macro_export]
macro_rules! vcheck {
    ($cond:expr, $oracle:expr, $($arg:tt)*) => {
        if !($cond) {
            return Err($crate::core::Violation::new($oracle, "", format!($($arg)*)));
        }
    };
}

#[derive(Default, Clone)]
pub struct Stats {
    pub faults: BTreeMap<&'static str, u64>,
    pub probes: BTreeMap<&'static str, u64>,
    pub steps: u64,
}

impl Stats {
    pub fn merge(&mut self, o: &Stats) {
        for (k, v) in &o.faults {
            *self.faults.entry(k).or_insert(0) += v;
        }
        for (k, v) in &o.probes {
            *self.probes.entry(k).or_insert(0) += v;
        }
        self.steps += o.steps;
    }
}

/// Per-run context.
pub struct Ctx {
    pub ch: Chooser,
    pub st: Stats,
    pub trace: bool,
    pub events: Vec<String>,
    pub digest: u64,
    pub skeleton: u64,
    pub nontrivial: bool,
    pub states: HashSet<u64>,
    pub sample: Option<String>,
    pub want_sample: bool,
}

impl Ctx {
    pub fn new(ch: Chooser, trace: bool) -> Self {
        Ctx {
            ch,
            st: Stats::default(),
            trace,
            events: Vec::new(),
            digest: 0xcbf2_9ce4_8422_2325,
            skeleton: 0xcbf2_9ce4_8422_2325,
            nontrivial: false,
            states: HashSet::new(),
            sample: None,
            want_sample: false,
        }
    }
    /// Register all probe/fault names so that zero counts appear (reach gaps).
    pub fn declare(&mut self, faults: &[&'static str], probes: &[&'static str]) {
        for f in faults {
            self.st.faults.entry(f).or_insert(0);
        }
        for p in probes {
            self.st.probes.entry(p).or_insert(0);
        }
    }
    /// Record one simulated event. Logging never draws from the chooser.
    #[inline]
    pub fn ev(&mut self, kind: &'static str, a: u64, b: u64) {
        self.st.steps += 1;
        let k = fnv(kind.as_bytes(), 0xcbf2_9ce4_8422_2325);
        self.skeleton = fnv_u64(k, self.skeleton);
        self.digest = fnv_u64(b, fnv_u64(a, fnv_u64(k, self.digest)));
        if self.trace {
            self.events.push(format!("{kind} {a} {b}"));
        }
    }
    #[inline]
    pub fn note(&mut self, f: impl FnOnce() -> String) {
        if self.trace {
            self.events.push(f());
        }
    }
    #[inline]
    pub fn fault(&mut self, name: &'static str) {
        *self.st.faults.entry(name).or_insert(0) += 1;
        self.nontrivial = true;
    }
    #[inline]
    pub fn probe(&mut self, name: &'static str) {
        *self.st.probes.entry(name).or_insert(0) += 1;
    }
    #[inline]
    pub fn state(&mut self, h: u64) {
        self.states.insert(h);
    }
}

pub fn hex(b: &[u8]) -> String {
    let mut s = String::with_capacity(b.len() * 2);
    for x in b.iter().take(96) {
        s.push_str(&format!("{x:02x}"));
    }
    if b.len() > 96 {
        s.push_str(&format!("..(+{})", b.len() - 96));
    }
    s
}

// ---------------------------------------------------------------- panic capture

use std::cell::RefCell;
thread_local! {
    static LAST_PANIC: RefCell<String> = RefCell::new(String::new());
}

pub fn install_panic_hook() {
    std::panic::set_hook(Box::new(|info| {
        let msg = if let Some(s) = info.payload().downcast_ref::<&str>() {
            (*s).to_string()
        } else if let Some(s) = info.payload().downcast_ref::<String>() {
            s.clone()
        } else {
            "<non-string panic>".to_string()
        };
        let loc = info.location().map(|l| format!("{}:{}", l.file(), l.line())).unwrap_or_default();
        LAST_PANIC.with(|p| *p.borrow_mut() = format!("{msg} at {loc}"));
    }));
}

pub fn last_panic() -> String {
    LAST_PANIC.with(|p| p.borrow().clone())
}

/// Run library code; a panic becomes a value.
pub fn guard<T>(f: impl FnOnce() -> T) -> Result<T, String> {
    match std::panic::catch_unwind(std::panic::AssertUnwindSafe(f)) {
        Ok(v) => Ok(v),
        Err(_) => Err(last_panic()),
    }
}
