//! D1 (part 1): caller-schedule simulator for `parser::request::Parser`.
//! Serves C01, C04 (preamble side), C06, C03 (request parser side), C11 (Params abort).

use crate::core::*;
use crate::gen::*;
use crate::model::{self, Fatal, PreOutcome, PreambleModel};
use crate::wire::*;
use crate::{vcheck, vfail};
use fastcgi_server::cgi::VarName;
use fastcgi_server::parser::{request, Error as PErr, Request as PReq};
use fastcgi_server::Config;
use std::num::NonZeroUsize;

pub fn config(buffer_size: usize, max_conns: usize) -> Config {
    let mut c = Config::with_conns(NonZeroUsize::new(max_conns.max(1)).unwrap());
    c.buffer_size = buffer_size;
    c
}

#[derive(Clone, Copy, Debug, PartialEq, Eq)]
pub enum Style {
    Whole,
    OneByte,
    Tiny,
    Large,
    ExactFill,
    Mixed,
}

pub fn pick_style(cx: &mut Ctx) -> Style {
    match cx.ch.weighted(&[3, 2, 2, 2, 2, 3]) {
        0 => Style::Whole,
        1 => Style::OneByte,
        2 => Style::Tiny,
        3 => Style::Large,
        4 => Style::ExactFill,
        _ => Style::Mixed,
    }
}

/// How many bytes to feed next, given free space and bytes remaining.
pub fn chunk(cx: &mut Ctx, style: Style, space: usize, remaining: usize) -> usize {
    let max = space.min(remaining);
    if max == 0 {
        return 0;
    }
    // byte-at-a-time styles over very long remainders cost a lot and add nothing
    let style = if remaining > 12_000 && matches!(style, Style::OneByte | Style::Tiny) { Style::Large } else { style };
    let k = match style {
        Style::Whole => max,
        Style::OneByte => 1,
        Style::Tiny => cx.ch.range(1, 4),
        Style::Large => cx.ch.range(1, max.min(4096)),
        Style::ExactFill => {
            if remaining >= space { cx.probe("exact_fill_read"); space } else { max }
        }
        Style::Mixed => match cx.ch.weighted(&[3, 2, 2, 1, 1]) {
            0 => max,
            1 => 1,
            2 => cx.ch.range(1, max.min(64)),
            3 => 0,
            _ => cx.ch.range(1, max),
        },
    };
    k.min(max)
}

pub fn err_name(e: &PErr) -> String {
    match e {
        PErr::Paniced => "Paniced".into(),
        PErr::StuckOnInput => "StuckOnInput".into(),
        PErr::Interrupted => "Interrupted".into(),
        PErr::UnknownVersion(v) => format!("UnknownVersion({v})"),
        PErr::InvalidRequestLen(l) => format!("InvalidRequestLen({l})"),
        PErr::NullRequest => "NullRequest".into(),
        PErr::AbortRequest => "AbortRequest".into(),
        PErr::Protocol(p) => format!("Protocol({p})"),
        _ => "Other".into(),
    }
}

pub fn fatal_name(f: &Fatal) -> String {
    match f {
        Fatal::UnknownVersion(v) => format!("UnknownVersion({v})"),
        Fatal::InvalidRequestLen(l) => format!("InvalidRequestLen({l})"),
        Fatal::NullRequest => "NullRequest".into(),
    }
}

/// Sorted environment of a parsed request, as (name string, value).
pub fn lib_env(r: &PReq) -> Vec<(String, Vec<u8>)> {
    let mut v: Vec<(String, Vec<u8>)> = r.env_iter().map(|(k, v)| (k.as_ref().to_string(), v.to_vec())).collect();
    v.sort();
    v
}

fn respell(cx: &mut Ctx, s: &str) -> String {
    let mode = cx.ch.pick(3);
    s.chars()
        .enumerate()
        .map(|(i, c)| match mode {
            0 => c.to_ascii_lowercase(),
            1 => c.to_ascii_uppercase(),
            _ => if i % 3 == 0 { c.to_ascii_lowercase() } else { c.to_ascii_uppercase() },
        })
        .collect()
}

/// Compares a parsed request against the model's request info.
pub fn check_request(cx: &mut Ctx, r: &PReq, info: &model::ReqInfo, oracle: &str) -> VResult {
    vcheck!(r.request_id.get() == info.id, oracle, "request id {} != model {}", r.request_id.get(), info.id);
    vcheck!(u16::from(r.role) == info.role, oracle, "role {:?} != model {}", r.role, info.role);
    vcheck!(u8::from(r.flags) == info.flags, oracle, "flags {:?} != model {:#x}", r.flags, info.flags);
    vcheck!(r.env_len() == info.env.len(), oracle, "env_len {} != model {}", r.env_len(), info.env.len());
    let got = lib_env(r);
    let exp: Vec<(String, Vec<u8>)> = info.env.iter().map(|(k, v)| (k.clone(), v.clone())).collect();
    if got != exp {
        let diff = got.iter().zip(exp.iter()).position(|(a, b)| a != b).unwrap_or(got.len().min(exp.len()));
        vfail!(oracle, "", "environment differs at sorted index {diff}: got {:?} expected {:?} (sizes {} / {})",
            got.get(diff).map(|(k, v)| (k.clone(), hex(v))), exp.get(diff).map(|(k, v)| (k.clone(), hex(v))), got.len(), exp.len());
    }
    // lookups by random re-spellings and absent names
    let keys: Vec<&String> = info.env.keys().collect();
    for _ in 0..keys.len().min(4) {
        let k = keys[cx.ch.pick(keys.len() as u32) as usize];
        let sp = respell(cx, k);
        let exp = info.env.get(&sp.to_ascii_uppercase());
        let got = r.get_var(VarName::new(&sp));
        vcheck!(got == exp.map(|v| &v[..]), oracle, "get_var({sp:?}) = {:?}, model {:?}", got.map(hex), exp.map(|v| hex(v)));
        vcheck!(r.contains_var(VarName::new(&sp)) == exp.is_some(), oracle, "contains_var({sp:?}) mismatch");
        let exp_str = exp.and_then(|v| std::str::from_utf8(v).ok());
        vcheck!(r.get_var_str(VarName::new(&sp)) == exp_str, oracle, "get_var_str({sp:?}) = {:?}, model {:?}", r.get_var_str(VarName::new(&sp)), exp_str);
    }
    for absent in ["__ABSENT__", "HTTP_NOT_THERE_AT_ALL", "request_methodx"] {
        let exp = info.env.get(&absent.to_ascii_uppercase());
        vcheck!(r.get_var(VarName::new(absent)) == exp.map(|v| &v[..]), oracle, "get_var of absent {absent:?} mismatch");
    }
    Ok(())
}

/// Result of driving a request parser over (part of) a wire.
pub struct ReqDrive {
    pub output: Vec<u8>,
    pub fed: usize,
    pub done: bool,
    pub calls: usize,
}

pub struct DriveOpts {
    pub style: Style,
    /// Do not feed beyond this absolute wire offset.
    pub cap: usize,
    /// Check the C06 invariant (non-empty input buffer while not done).
    pub check_nonempty: bool,
    /// Model replies for prefix checking (absolute triggers), if any.
    pub replies: Option<Vec<u8>>,
    /// Offset at which the model's preamble ends: the parse() call that is handed the byte before it (or more) must
    /// report done - progress must not depend on a further call without new input.
    pub done_by: Option<usize>,
}

/// Feeds `wire[*pos..cap]` to the parser under the chunk style until done or exhausted.
pub fn drive_request(
    cx: &mut Ctx,
    parser: &mut request::Parser<'_>,
    wire: &[u8],
    pos: &mut usize,
    opts: &DriveOpts,
    oracle: &str,
) -> Result<ReqDrive, Violation> {
    let mut d = ReqDrive { output: Vec::new(), fed: *pos, done: false, calls: 0 };
    let mut idle_calls = 0;
    let mut spare: Option<request::Parser<'_>> = None;
    loop {
        // the parser is Clone: a caller may at any moment continue on a copy (or on an older copy brought up to date
        // with clone_from); a copy is the same parser
        match cx.ch.weighted(&[60, 1, 1, 1]) {
            1 => { let c = parser.clone(); *parser = c; cx.probe("continued_on_clone"); }
            2 => { spare = Some(parser.clone()); }
            3 => { if let Some(mut sp) = spare.take() { sp.clone_from(parser); *parser = sp; cx.probe("continued_on_clone_from"); } }
            _ => {}
        }
        let space = parser.input_buffer().len();
        if space == 0 { cx.probe("parse0_on_full_buffer"); }
        let remaining = opts.cap.saturating_sub(*pos);
        let k = chunk(cx, opts.style, space, remaining);
        if k == 0 && remaining == 0 {
            idle_calls += 1;
            if idle_calls > 2 {
                return Ok(d);
            }
        }
        parser.input_buffer()[..k].copy_from_slice(&wire[*pos..*pos + k]);
        *pos += k;
        d.fed = *pos;
        cx.ev("feed", k as u64, space as u64);
        let res = guard(|| {
            let y = parser.parse(k);
            (y.done, y.output.to_vec())
        });
        d.calls += 1;
        let (done, out) = match res {
            Ok(v) => v,
            Err(p) => vfail!("panic", "request::Parser::parse", "parse({k}) panicked: {p}"),
        };
        if !out.is_empty() {
            cx.ev("output", out.len() as u64, 0);
        }
        d.output.extend_from_slice(&out);
        if let Some(exp) = &opts.replies {
            if !exp.starts_with(&d.output) {
                vfail!(oracle, "output_prefix", "bytes emitted toward the client are not a prefix of the expected replies: got {} expected {}",
                    hex(&d.output), hex(exp));
            }
        }
        {
            // abstract state: (final?, free-space class, output pending, chunk class)
            let sp = parser.input_buffer().len();
            let cls = if sp == 0 { 0 } else if sp < 8 { 1 } else if sp < space / 2 { 2 } else { 3 };
            let kc = if k == 0 { 0 } else if k == 1 { 1 } else if k < 8 { 2 } else if k == space { 3 } else { 4 };
            cx.state(fnv_u64(u64::from(done), fnv_u64(cls, fnv_u64(u64::from(!out.is_empty()), fnv_u64(kc, 0x51)))));
        }
        if done {
            d.done = true;
            return Ok(d);
        }
        if let Some(end) = opts.done_by {
            if k > 0 && *pos >= end {
                vfail!("c01_not_done_after_last_byte", "", "the parse() call that received the last byte of the preamble ({} of {end} bytes fed, {k} in this call) reported done == false: finishing depends on how the bytes are cut into reads", *pos);
            }
        }
        if opts.check_nonempty && parser.input_buffer().is_empty() {
            vfail!("c06_empty_input_buffer", "", "parse() returned done == false but input_buffer() is empty (fed {} bytes)", *pos);
        }
        if d.calls > wire.len() * 2 + 64 {
            vfail!("hang", "request::Parser", "no completion after {} calls", d.calls);
        }
    }
}

/// A generated preamble case.
pub struct PreCase {
    pub wire: Vec<u8>,
    pub recs: Vec<Rec>,
    pub bufsize: usize,
    pub max_conns: usize,
    pub trailing: usize,
}

pub struct PreOpts {
    pub allow_abort: bool,
    pub noise_num: u32, // probability numerator /8 of noise at each slot
    pub big_ok: bool,
    pub max_pairs: usize,
    /// If Some(b): force this configured buffer size and bound pairs accordingly.
    pub force_buf: Option<usize>,
}

/// Emits the records of one request preamble (BeginRequest + Params stream + noise).
pub fn preamble_records(
    cx: &mut Ctx,
    out: &mut Vec<Rec>,
    id: u16,
    role: u16,
    flags: u8,
    pairs: &[(Vec<u8>, Vec<u8>)],
    noise_num: u32,
    noise_pair_max: usize,
    idle_noise: bool,
) {
    if idle_noise {
        while cx.ch.chance(noise_num, 8) {
            let r = gen_noise(cx, Phase::Idle, id, noise_pair_max);
            out.push(r);
        }
    }
    let pad = gen_padding(cx);
    out.push(begin(id, role, flags, pad));
    let (payload, ends) = encode_pairs(cx, pairs, true);
    let cuts = cut_payload(cx, &payload, &ends);
    if cuts.len() >= 3 { cx.probe("params_3plus_records"); }
    while cx.ch.chance(noise_num, 8) {
        let r = gen_noise(cx, Phase::Params, id, noise_pair_max);
        out.push(r);
    }
    for c in cuts {
        let pad = gen_padding(cx);
        out.push(Rec::new(PARAMS, id, c, pad));
        while cx.ch.chance(noise_num, 12) {
            let r = gen_noise(cx, Phase::Params, id, noise_pair_max);
            out.push(r);
        }
    }
    let pad = gen_padding(cx);
    out.push(Rec::new(PARAMS, id, Vec::new(), pad));
}

pub fn pick_bufsize(cx: &mut Ctx, longest_pair: usize) -> usize {
    let need = (longest_pair + 13).max(1);
    match cx.ch.weighted(&[3, 3, 2, 2, 1]) {
        0 => need,
        1 => need + cx.ch.range(1, 9),
        2 => cx.ch.one_of(&[4096usize, 8192]).max(need),
        3 => cx.ch.range(need, need + 70000),
        _ => cx.ch.one_of(&[65536usize, 1 << 20]).max(need),
    }
}

pub fn gen_precase(cx: &mut Ctx, o: &PreOpts) -> PreCase {
    let id = gen_id(cx);
    let role = gen_role(cx);
    let flags = if cx.ch.chance(1, 2) { cx.ch.byte() } else { cx.ch.pick(2) as u8 };
    let max_conns = cx.ch.one_of(&[1usize, 9, 10, 16, 99, 100, 12345]);
    let (bufsize, pair_cap) = match o.force_buf {
        Some(b) => (b, effective(b).saturating_sub(13)),
        None => (0, if o.big_ok { 80000 } else { 2000 }),
    };
    let pairs = gen_pairs(cx, o.max_pairs, pair_cap, o.big_ok && o.force_buf.is_none());
    let aborts = if o.allow_abort { cx.ch.weighted(&[3, 3, 1]) } else { 0 };
    let mut attempts = Vec::new();
    for _ in 0..aborts {
        attempts.push(gen_pairs(cx, 3, pair_cap.min(300), false));
    }
    let longest = pairs.iter().chain(attempts.iter().flatten()).map(|(n, v)| n.len() + v.len()).max().unwrap_or(0);
    let bufsize = if o.force_buf.is_some() { bufsize } else { pick_bufsize(cx, longest) };
    let eff = effective(bufsize);
    let mut recs = Vec::new();
    for apairs in &attempts {
        // an aborted attempt: BeginRequest, part of a Params stream, AbortRequest
        let aid = if cx.ch.chance(1, 2) { id } else { gen_id(cx) };
        let mut tmp = Vec::new();
        let (arole, aflags) = (gen_role(cx), cx.ch.byte());
        preamble_records(cx, &mut tmp, aid, arole, aflags, apairs, o.noise_num, eff, true);
        // drop the terminating empty Params and a random tail of the attempt
        tmp.pop();
        let begin_idx = tmp.iter().position(|r| r.rtype == BEGIN && r.id == aid && r.content.len() == 8
            && (1..=3).contains(&u16::from_be_bytes([r.content[0], r.content[1]]))).unwrap_or(0);
        let keep = cx.ch.range(begin_idx + 1, tmp.len());
        tmp.truncate(keep);
        // cutting a Params record sequence mid-pair is fine: the abort discards it
        recs.extend(tmp);
        let body_len = if cx.ch.chance(1, 3) { cx.ch.range(1, 20) } else { 0 };
        let body = gen_bytes(cx, body_len);
        let pad = gen_padding(cx);
        recs.push(Rec::new(ABORT, aid, body, pad));
        cx.probe("abort_during_params");
    }
    preamble_records(cx, &mut recs, id, role, flags, &pairs, o.noise_num, eff, true);
    junk_reserved(cx, &mut recs);
    // a record that does not fit 16 bits together with its padding: give it a buffer that can hold it whole
    let bufsize = if o.force_buf.is_none() && recs.iter().any(|r| r.content.len() + usize::from(r.padding) > 65535) && cx.ch.chance(1, 2) {
        cx.probe("buffer_holds_whole_huge_record");
        cx.ch.one_of(&[70000usize, 131072, 1 << 20])
    } else { bufsize };
    let mut wire = encode_all(&recs);
    let trailing = if cx.ch.chance(1, 3) { cx.ch.range(1, 40) } else { 0 };
    let t = gen_bytes(cx, trailing);
    wire.extend_from_slice(&t);
    PreCase { wire, recs, bufsize, max_conns, trailing }
}

fn describe(case: &PreCase) -> String {
    let recs: Vec<String> = case.recs.iter().take(40).map(Rec::short).collect();
    format!("bufsize={} max_conns={} trailing={} records=[{}]", case.bufsize, case.max_conns, case.trailing, recs.join(" "))
}

/// One full request-parser run over a case under one schedule; checks against M-preamble.
/// Returns an outcome summary string for cross-schedule comparison.
pub fn run_precase(cx: &mut Ctx, case: &PreCase, m: &PreambleModel, style: Style, prop: &str) -> Result<String, Violation> {
    let cfg = config(case.bufsize, case.max_conns);
    let mut parser = match guard(|| request::Parser::new(&cfg)) {
        Ok(p) => p,
        Err(p) => vfail!("panic", "request::Parser::new", "{p}"),
    };
    let eff = parser.input_buffer().len();
    vcheck!(eff == effective(case.bufsize), "c06_effective_bufsize", "effective buffer {eff} for configured {}", case.bufsize);
    let expected_out = model::concat_replies(&m.replies);
    let mut pos = 0;
    let done_by = match &m.outcome { PreOutcome::Done(info) => Some(info.end), _ => None };
    let opts = DriveOpts { style, cap: case.wire.len(), check_nonempty: true, replies: Some(expected_out.clone()), done_by };
    let oracle_out = if prop == "C01" { "c01_output" } else { "c04_reply_stream" };
    let d = drive_request(cx, &mut parser, &case.wire, &mut pos, &opts, oracle_out)?;
    // Replies may not precede their trigger.
    match &m.outcome {
        PreOutcome::Done(info) => {
            vcheck!(d.done, "c01_not_done", "model: preamble complete at {} but parser not done after {} bytes; {}", info.end, d.fed, describe(case));
            vcheck!(d.output == expected_out, oracle_out, "emitted {} expected {}", hex(&d.output), hex(&expected_out));
            // conversions on clones at the final state
            let clone = parser.clone();
            let res = guard(move || parser.into_request());
            let (req, left) = match res {
                Ok(Ok(v)) => v,
                Ok(Err(e)) => vfail!(if matches!(e, PErr::StuckOnInput) { "c06_stuck_within_bound" } else { "c01_result" }, "",
                    "into_request() = Err({}) but model parses the preamble; {}", err_name(&e), describe(case)),
                Err(p) => vfail!("panic", "into_request", "{p}"),
            };
            check_request(cx, &req, info, "c01_request")?;
            let exp_left = &case.wire[info.end..d.fed];
            vcheck!(left == exp_left, "c05_leftover", "leftover {} != unread suffix {} (end {}, fed {})", hex(&left), hex(exp_left), info.end, d.fed);
            // into_stream_parser on the clone must agree
            match guard(move || clone.into_stream_parser().map(|sp| (sp.request.clone(), sp.into_input()))) {
                Ok(Ok((r2, Ok(inp)))) => {
                    vcheck!(r2 == req, "c05_handoff_request", "stream parser carries a different request");
                    vcheck!(inp == exp_left, "c05_leftover", "stream parser input {} != unread suffix {}", hex(&inp), hex(exp_left));
                }
                Ok(Ok((_, Err(e)))) => vfail!("c05_handoff", "", "into_input on fresh stream parser failed: {}", err_name(&e)),
                Ok(Err(e)) => vfail!("c05_handoff", "", "into_stream_parser failed: {}", err_name(&e)),
                Err(p) => vfail!("panic", "into_stream_parser", "{p}"),
            }
            Ok(format!("ok id={} role={} flags={} env={} out={} left={}", info.id, info.role, info.flags, info.env.len(), d.output.len(), left.len()))
        }
        PreOutcome::Fatal { err, .. } => {
            vcheck!(d.done, "c03_fatal_missed", "model: {} but parser not done; {}", fatal_name(err), describe(case));
            vcheck!(d.output == expected_out, oracle_out, "emitted {} expected {}", hex(&d.output), hex(&expected_out));
            match guard(move || parser.into_request()) {
                Ok(Err(e)) => {
                    vcheck!(err_name(&e) == fatal_name(err), "c03_fatal_kind", "got {} expected {}", err_name(&e), fatal_name(err));
                    Ok(format!("fatal {}", err_name(&e)))
                }
                Ok(Ok(_)) => vfail!("c03_fatal_kind", "", "got a request, model says {}", fatal_name(err)),
                Err(p) => vfail!("panic", "into_request", "{p}"),
            }
        }
        PreOutcome::Incomplete => {
            if d.done {
                // only StuckOnInput can end an incomplete preamble
                match guard(move || parser.into_request()) {
                    Ok(Err(PErr::StuckOnInput)) => Ok("stuck".into()),
                    Ok(Err(e)) => vfail!("c03_outcome", "", "incomplete input but parser reports {}", err_name(&e)),
                    Ok(Ok(_)) => vfail!("c03_outcome", "", "incomplete input but parser produced a request"),
                    Err(p) => vfail!("panic", "into_request", "{p}"),
                }
            } else {
                vcheck!(d.output == expected_out, oracle_out, "emitted {} expected {}", hex(&d.output), hex(&expected_out));
                match guard(move || parser.into_request()) {
                    Ok(Err(PErr::Interrupted)) => Ok(format!("incomplete out={}", d.output.len())),
                    Ok(Err(e)) => vfail!("c03_outcome", "", "conversion at non-final state gave {}", err_name(&e)),
                    Ok(Ok(_)) => vfail!("c03_outcome", "", "conversion at non-final state produced a request"),
                    Err(p) => vfail!("panic", "into_request", "{p}"),
                }
            }
        }
    }
}

fn sample_of(cx: &mut Ctx, case: &PreCase, style: Style) {
    if cx.want_sample {
        cx.sample = Some(format!("style={style:?} {}", describe(case)));
    }
}

pub const NOISE_PROBES: &[&str] = &[
    "noise_getvalues", "noise_unknown_type", "noise_skipped", "noise_foreign_id", "noise_dup_begin", "noise_foreign_begin",
    "noise_unknown_role", "noise_own_misplaced", "noise_getvalues_empty", "noise_huge_record", "noise_huge_record_over_64k_total", "getvalues_incomplete_tail",
];
pub const C01_PROBES: &[&str] = &["burst_of_1100plus_reply_records", "abort_during_params", 
    "exact_fill_read", "params_3plus_records", "long_form_small_len", "pair_spans_3_records", "four_byte_length",
    "cut_inside_length_prefix", "tight_buffer", "pair_over_one_record", "buffer_holds_whole_huge_record",
];
pub const C04REQ_PROBES: &[&str] = &["getvalues_over_256_pairs", "abort_during_params", "exact_fill_read", "params_3plus_records", "cut_inside_length_prefix"];
pub const C06_PROBES: &[&str] = &["exact_fill_read", "pair_at_bound", "pair_beyond_buffer", "tight_limit_ok", "bufsize_table", "getvalues_pair_beyond_buffer"];
#[allow(dead_code)]
pub const D1REQ_PROBES: &[&str] = &[
    "exact_fill_read", "params_3plus_records", "long_form_small_len", "getvalues_incomplete_tail",
    "noise_getvalues", "noise_unknown_type", "noise_skipped", "noise_foreign_id", "noise_dup_begin",
    "noise_foreign_begin", "noise_unknown_role", "noise_own_misplaced", "noise_getvalues_empty",
    "pair_spans_3_records", "four_byte_length", "cut_inside_length_prefix", "abort_during_params",
    "tight_buffer", "pair_over_one_record",
];

fn note_reach(cx: &mut Ctx, case: &PreCase, m: &PreambleModel) {
    if m.pairs_spanning_3 { cx.probe("pair_spans_3_records"); }
    if m.four_byte_len { cx.probe("four_byte_length"); }
    if case.recs.iter().any(|r| r.rtype == PARAMS && r.content.len() > 0 && r.content.len() < 4) { cx.probe("cut_inside_length_prefix"); }
}

/// C01: exact preamble decoding under any segmentation and chunking.
pub fn c01(cx: &mut Ctx) -> VResult {
    cx.declare(&[], C01_PROBES);
    cx.declare(&[], NOISE_PROBES);
    let big = cx.ch.chance(1, 40);
    // history: a quarter of the preambles follow one or two attempts the client aborted during Params on the same parser
    let o = PreOpts { allow_abort: cx.ch.chance(1, 4), noise_num: cx.ch.pick(4), big_ok: big, max_pairs: if big { 3 } else { 10 }, force_buf: None };
    let mut case = gen_precase(cx, &o);
    // scale: one preamble in ~250 carries a burst of 1100..6000 reply-producing records (unknown types, 8 bytes
    // each) behind some record, with a buffer that can hold the whole burst; the first schedule feeds as much as fits
    let burst = cx.ch.chance(1, 250);
    if burst {
        let n = cx.ch.range(1100, 6000);
        let at = cx.ch.range(1, case.recs.len() - 1);
        let t = cx.ch.one_of(&[0u8, 12, 13, 127, 255]);
        let id = cx.ch.one_of(&[0u16, 1, 77]);
        let b: Vec<Rec> = (0..n).map(|_| Rec::new(t, id, Vec::new(), 0)).collect();
        case.recs.splice(at..at, b);
        case.wire = encode_all(&case.recs);
        case.bufsize = case.bufsize.max(cx.ch.one_of(&[65536usize, 1 << 20]));
        cx.probe("burst_of_1100plus_reply_records");
    }
    let m = model::preamble(&case.wire, 0, case.max_conns);
    note_reach(cx, &case, &m);
    let longest = match &m.outcome { PreOutcome::Done(_) => case.recs.iter().map(|r| r.content.len()).max().unwrap_or(0), _ => 0 };
    if longest == 65535 { cx.probe("pair_over_one_record"); }
    if effective(case.bufsize) <= 64 { cx.probe("tight_buffer"); }
    if !matches!(m.outcome, PreOutcome::Done(_)) {
        panic!("harness: C01 generator produced a preamble the model does not complete: {}", describe(&case));
    }
    let style = if burst { Style::Large } else { pick_style(cx) };
    sample_of(cx, &case, style);
    let a = run_precase(cx, &case, &m, style, "C01")?;
    // metamorphic: other schedules give the identical outcome
    for _ in 0..2 {
        let s2 = pick_style(cx);
        if s2 != style { cx.nontrivial = true; }
        let b = run_precase(cx, &case, &m, s2, "C01")?;
        // fed amount (hence leftover length) may differ; compare the invariant part
        let inv = |s: &str| s.split(" left=").next().unwrap_or("").to_string();
        vcheck!(inv(&a) == inv(&b), "c01_schedule_dependence", "outcome differs across schedules: {a} vs {b}");
    }
    Ok(())
}

/// C04 (request-parser side) + C11 (abort during Params): exact reply stream.
pub fn c04_req(cx: &mut Ctx) -> VResult {
    cx.declare(&[], C04REQ_PROBES);
    cx.declare(&[], NOISE_PROBES);
    let o = PreOpts { allow_abort: true, noise_num: 2 + cx.ch.pick(5), big_ok: false, max_pairs: 6, force_buf: None };
    let mut case = gen_precase(cx, &o);
    let many_gv = cx.ch.chance(1, 40);
    if many_gv {
        // scale: one GetValues query with hundreds of pairs ahead of everything, in a buffer that holds it whole
        let body = gen_getvalues_many(cx);
        let pad = gen_padding(cx);
        if cx.ch.chance(3, 4) { case.bufsize = case.bufsize.max(body.len() + 300 + cx.ch.range(0, 5000)); }
        let r = Rec::new(GETVALUES, 0, body, pad);
        let mut w = encode_all(std::slice::from_ref(&r));
        w.extend_from_slice(&case.wire);
        case.wire = w;
        case.recs.insert(0, r);
    }
    let m = model::preamble(&case.wire, 0, case.max_conns);
    note_reach(cx, &case, &m);
    if !matches!(m.outcome, PreOutcome::Done(_)) {
        panic!("harness: C04 generator produced a preamble the model does not complete: {}", describe(&case));
    }
    for r in &m.replies {
        if r.kind == "getvalues" {
            vcheck!(r.bytes.len() <= 104, "harness_model", "model GetValuesResult longer than RESPONSE_LEN");
        }
    }
    let style = if many_gv && cx.ch.chance(3, 4) { if cx.ch.chance(1, 2) { Style::Whole } else { Style::Large } } else if cx.ch.chance(1, 3) { Style::OneByte } else { pick_style(cx) };
    sample_of(cx, &case, style);
    cx.nontrivial |= !m.replies.is_empty();
    run_precase(cx, &case, &m, style, "C04")?;
    Ok(())
}

/// C06: buffer bound. Exhaustive effective-size table for small sizes, then bound-tight cases.
pub fn c06(cx: &mut Ctx) -> VResult {
    cx.declare(&[], C06_PROBES);
    // table part (every run checks a slice; together the batch covers 0..=1100 and the residues near powers)
    let base = cx.ch.one_of(&[0usize, 16, 64, 4088, 8184, 65528, (1 << 20) - 8]);
    for s in base..base + 20 {
        let cfg = config(s, 1);
        let eff = request::Parser::new(&cfg).input_buffer().len();
        let exp = effective(s);
        vcheck!(eff == exp && eff % 8 == 0 && eff >= 24 && eff >= s, "c06_effective_bufsize", "buffer_size {s}: effective {eff}, expected {exp}");
        cx.probe("bufsize_table");
    }
    // bound-tight preamble
    let bufsize = match cx.ch.weighted(&[4, 3, 2, 1]) {
        0 => cx.ch.range(0, 64),
        1 => cx.ch.range(65, 600),
        2 => cx.ch.one_of(&[4096usize, 4097, 8192, 8191]),
        _ => cx.ch.range(600, 70000),
    };
    let eff = effective(bufsize);
    let delta = cx.ch.weighted(&[5, 1, 1, 1, 1, 1, 3]); // 0: B-13 (asserted); 1..5: B-12..B-8 (informational); 6: beyond buffer
    let id = gen_id(cx);
    let role = gen_role(cx);
    let (target, assert_ok) = match delta {
        0 => (eff - 13, true),
        6 => (eff + cx.ch.range(0, 40), false),
        d => (eff - 13 + d, false),
    };
    // critical pair: name+value == target
    let nlen = cx.ch.range(0, target.min(300));
    let mut name = gen_bytes(cx, nlen);
    for b in &mut name { *b = b'A' + (*b % 26); }
    let val = gen_bytes(cx, target - nlen);
    let mut pairs = gen_pairs(cx, 3, (eff - 13).min(200), false);
    let at = cx.ch.range(0, pairs.len());
    pairs.insert(at, (name, val));
    let mut recs = Vec::new();
    let (fl, nn) = (cx.ch.byte(), cx.ch.pick(3));
    preamble_records(cx, &mut recs, id, role, fl, &pairs, nn, eff, true);
    // beyond-the-buffer cases: half of them put the oversized unit into a GetValues query (an unknown, long
    // variable name) instead of the Params stream - before the request or between its Params records
    let mut gv_oversized = false;
    if delta == 6 && cx.ch.chance(1, 2) && eff < 60000 {
        let total = eff + cx.ch.range(0, 40);
        let nl = if cx.ch.chance(1, 2) { total } else { cx.ch.range(total / 2, total) };
        let mut body = Vec::new();
        varint(nl, &mut body);
        varint(total - nl, &mut body);
        body.extend((0..nl).map(|i| b'a' + (i % 26) as u8));
        body.extend((0..total - nl).map(|i| b'0' + (i % 10) as u8));
        if body.len() <= 65535 {
            // position: before BeginRequest or right behind a Params record
            let spots: Vec<usize> = recs.iter().enumerate().filter(|(_, r)| r.rtype == BEGIN || (r.rtype == PARAMS && !r.content.is_empty())).map(|(i, r)| if r.rtype == BEGIN && cx.ch.chance(1, 2) { i } else { i + 1 }).collect();
            let at = spots[cx.ch.pick(spots.len() as u32) as usize];
            let pad = gen_padding(cx);
            recs.insert(at, Rec::new(GETVALUES, 0, body, pad));
            gv_oversized = true;
            cx.probe("getvalues_pair_beyond_buffer");
        }
    }
    let wire = encode_all(&recs);
    let case = PreCase { wire, recs, bufsize, max_conns: 3, trailing: 0 };
    let m = model::preamble(&case.wire, 0, case.max_conns);
    let style = if cx.ch.chance(1, 3) { Style::ExactFill } else { pick_style(cx) };
    sample_of(cx, &case, style);
    cx.nontrivial = true;
    if assert_ok {
        cx.probe("pair_at_bound");
        run_precase(cx, &case, &m, style, "C01")?;
        return Ok(());
    }
    // informational / beyond: run, require totality + the non-empty-buffer invariant + honest reporting
    let cfg = config(case.bufsize, case.max_conns);
    let mut parser = request::Parser::new(&cfg);
    let mut pos = 0;
    let opts = DriveOpts { style, cap: case.wire.len(), check_nonempty: true, replies: None, done_by: None };
    let d = drive_request(cx, &mut parser, &case.wire, &mut pos, &opts, "c06")?;
    let res = guard(move || parser.into_request());
    match res {
        Ok(Ok((req, _))) => {
            if delta == 6 && target + 2 > eff {
                // pair encoded size exceeds the buffer and lies inside one record? only then it must be stuck
            }
            if let PreOutcome::Done(info) = &m.outcome {
                check_request(cx, &req, info, "c01_request")?;
            }
            // (an implementation that digests an oversized GetValues pair piecewise would be fine as well)
            let _ = gv_oversized;
            cx.probe("tight_limit_ok");
        }
        Ok(Err(PErr::StuckOnInput)) => {
            vcheck!(d.done, "c06_stuck_not_reported", "StuckOnInput without done");
            if delta == 6 { cx.probe("pair_beyond_buffer"); } else { cx.fault("stuck_between_documented_and_tight_limit"); }
        }
        Ok(Err(e)) => vfail!("c06_outcome", "", "unexpected error {} for oversized pair", err_name(&e)),
        Err(p) => vfail!("panic", "into_request", "{p}"),
    }
    Ok(())
}
