//! D1 (part 2): caller-schedule simulator for `parser::stream::Parser` and the
//! conversion chain. Serves C02, C04 (stream side), C05, C18, C03 (stream side), C11 (sync).

use crate::core::*;
use crate::d1req::*;
use crate::gen::*;
use crate::model::{self, Fatal, PreOutcome, StreamModel};
use crate::wire::*;
use crate::{vcheck, vfail};
use fastcgi_server::parser::{request, stream, Error as PErr};
use fastcgi_server::protocol::RecordType;

pub fn rt(t: u8) -> RecordType {
    RecordType::try_from(t).expect("known type")
}

/// Emits stream-phase records for a request: each of the role's streams cut into records,
/// terminators, and noise. `compliant`: streams in role order; otherwise records are shuffled
/// by type (C18 histories).
pub fn stream_records(cx: &mut Ctx, out: &mut Vec<Rec>, id: u16, role: u16, noise_num: u32, noise_pair_max: usize, compliant: bool, phase: Phase) {
    stream_records_opts(cx, out, id, role, noise_num, noise_pair_max, compliant, phase, true)
}

/// `allow_scale`: whether the rare very long streams may be generated (not on connections that are long already).
#[allow(clippy::too_many_arguments)]
pub fn stream_records_opts(cx: &mut Ctx, out: &mut Vec<Rec>, id: u16, role: u16, noise_num: u32, noise_pair_max: usize, compliant: bool, phase: Phase, allow_scale: bool) {
    let streams = role_streams(role);
    let mut groups: Vec<Vec<Rec>> = Vec::new();
    for (i, &s) in streams.iter().enumerate() {
        // scale: one stream in ~400 is either long (1..2 MiB in maximum-size records) or consists of very many
        // (8000..30000) tiny records - counters and offsets that creep with every record or byte
        // (the many-tiny-records variant only in the sync stream scenario: a simulated connection would need millions of
        // scheduler steps for it; the long-stream variant, in maximum-size records, also on simulated connections)
        let scale = if !allow_scale { 0 } else if compliant && phase == Phase::Stream && cx.ch.chance(1, 400) { 1 + cx.ch.pick(2) } else if compliant && phase == Phase::Either && cx.ch.chance(1, 500) { 1 } else { 0 };
        let total = if scale == 1 { cx.probe("stream_over_1mib"); cx.ch.range(1 << 20, 2 << 20) } else if scale == 2 { cx.probe("stream_of_8000plus_records"); cx.ch.range(40_000, 150_000) } else { match cx.ch.weighted(&[6, 12, 9, 1]) {
            0 => 0,
            1 => cx.ch.range(1, 64),
            2 => cx.ch.range(65, 1200),
            _ => cx.ch.one_of(&[65535usize, 65536, 70000, 131070]),
        } };
        let content = pattern(0x40 + i as u8 * 0x55, total);
        let mut g = Vec::new();
        let mut p = 0;
        // huge streams in tiny records only multiply the record count: keep records large there
        let style = if scale == 2 { 1 } else if total > 4000 { cx.ch.one_of(&[0u32, 3]) } else { cx.ch.pick(4) };
        while p < total {
            let rem = total - p;
            let k = match style {
                0 => rem.min(65535),
                1 => cx.ch.range(1, 9).min(rem),
                2 => cx.ch.range(1, rem.min(700)),
                _ => cx.ch.one_of(&[1usize, 7, 8, 9, 255, 256, 16384, 32767, 32768, 32769, 65535]).min(rem),
            };
            if k == 65535 { cx.probe("record_65535"); }
            let mut pad = gen_padding(cx);
            if k >= 65281 && cx.ch.chance(1, 2) { pad = 255; }
            g.push(Rec::new(s, id, content[p..p + k].to_vec(), pad));
            p += k;
        }
        let pad = gen_padding(cx);
        g.push(Rec::new(s, id, Vec::new(), pad));
        groups.push(g);
    }
    // extra records of streams not in the role (skipped), only in non-compliant histories
    if !compliant && cx.ch.chance(1, 2) {
        let s = if streams.contains(&DATA) { STDIN } else { DATA };
        let l = cx.ch.range(0, 20);
        let body = gen_bytes(cx, l);
        groups.push(vec![Rec::new(s, id, body, 0)]);
    }
    let mut seq: Vec<Rec> = Vec::new();
    if compliant {
        for g in groups { seq.extend(g); }
    } else {
        // interleave groups preserving order within each group
        let mut idx = vec![0usize; groups.len()];
        loop {
            let live: Vec<usize> = (0..groups.len()).filter(|&i| idx[i] < groups[i].len()).collect();
            if live.is_empty() { break; }
            let g = live[cx.ch.pick(live.len() as u32) as usize];
            seq.push(groups[g][idx[g]].clone());
            idx[g] += 1;
        }
        cx.probe("noncompliant_order");
    }
    for r in seq {
        while cx.ch.chance(noise_num, 10) {
            let n = gen_noise(cx, phase, id, noise_pair_max);
            out.push(n);
        }
        out.push(r);
    }
    while cx.ch.chance(noise_num, 10) {
        let n = gen_noise(cx, phase, id, noise_pair_max);
        out.push(n);
    }
}

#[derive(Clone, Copy, PartialEq, Eq, Debug)]
pub enum ReadPolicy {
    Full,
    Partial,
    Skip,
}

pub struct SDriver<'a, 'c> {
    pub p: stream::Parser<'c>,
    pub wire: &'a [u8],
    pub pos: usize,
    pub cap: usize,
    pub m: &'a StreamModel,
    pub streams: &'static [u8],
    /// Index into `streams` of the active stream (None = ignoring).
    pub active: Option<usize>,
    /// Bytes of each stream handed to the caller so far.
    pub taken: Vec<usize>,
    pub out_drained: Vec<u8>,
    pub all_replies: Vec<u8>,
    pub style: Style,
    pub failed: Option<String>,
    pub saw_end: bool,
    pub c18: bool,
    /// C03: a full buffer without progress is a legal outcome (no stuck detection in the stream parser).
    pub allow_stuck: bool,
    pub stuck: bool,
    /// Output is only ever drained partially (never completely) while reading: the consumed prefix keeps growing.
    pub partial_drain_only: bool,
    /// An earlier copy of the parser, brought up to date with `clone_from` before the driver continues on it.
    pub spare: Option<stream::Parser<'c>>,
}

impl<'a, 'c> SDriver<'a, 'c> {
    pub fn new(p: stream::Parser<'c>, wire: &'a [u8], pos: usize, cap: usize, m: &'a StreamModel, role: u16, style: Style) -> Self {
        let streams = role_streams(role);
        SDriver {
            p, wire, pos, cap, m, streams,
            active: if streams.is_empty() { None } else { Some(0) },
            taken: vec![0; streams.len()],
            out_drained: Vec::new(),
            all_replies: model::concat_replies(&m.replies),
            style, failed: None, saw_end: false, c18: false, allow_stuck: false, stuck: false, partial_drain_only: false, spare: None,
        }
    }

    pub fn total_out_pub(&self) -> Vec<u8> {
        self.total_out()
    }

    fn total_out(&self) -> Vec<u8> {
        let mut v = self.out_drained.clone();
        v.extend_from_slice(self.p.output_buffer());
        v
    }

    pub fn check_buffers(&self, oracle: &str) -> VResult {
        // stream_buffer must equal the model content at the consumer's offset
        let sb = self.p.stream_buffer();
        if let Some(i) = self.active {
            let off = self.taken[i];
            let c = &self.m.content[i];
            if off + sb.len() > c.len() || &c[off..off + sb.len()] != sb {
                vfail!(oracle, "stream_buffer", "stream_buffer() holds {} at offset {off}; stream {} content is {} bytes: {}",
                    hex(sb), self.streams[i], c.len(), hex(&c[off.min(c.len())..(off + sb.len()).min(c.len())]));
            }
        } else {
            vcheck!(sb.is_empty(), oracle, "stream_buffer() non-empty ({} bytes) while no stream is active", sb.len());
        }
        let ob = self.p.output_buffer();
        let dl = self.out_drained.len();
        let out_len = dl + ob.len();
        if out_len > self.all_replies.len() || self.all_replies[..dl] != self.out_drained[..] || self.all_replies[dl..out_len] != *ob {
            let out = self.total_out();
            vfail!("c04_reply_stream", "stream_prefix", "parser output {} is not a prefix of expected replies {}", hex(&out), hex(&self.all_replies));
        }
        // a reply may not precede the bytes that trigger it
        let mut acc = 0;
        for r in &self.m.replies {
            if acc >= out_len { break; }
            acc += r.bytes.len();
            if r.trigger > self.pos {
                vfail!("c04_reply_stream", "premature", "reply for record at {} emitted after only {} bytes were fed (needs {})", r.rec_start, self.pos, r.trigger);
            }
        }
        Ok(())
    }

    /// feed k bytes and parse, with dest Some(len) or None. Returns (stream bytes, stream_end, progress).
    pub fn feed_parse(&mut self, cx: &mut Ctx, dest_len: Option<usize>, oracle: &str) -> Result<(usize, bool, bool), Violation> {
        // the parser is Clone: a caller may at any moment continue on a copy (or on an older copy brought up to
        // date with clone_from); a copy is the same parser
        match cx.ch.weighted(&[60, 1, 1, 1]) {
            1 => { let c = self.p.clone(); self.p = c; cx.probe("continued_on_clone"); }
            2 => { self.spare = Some(self.p.clone()); }
            3 => { if let Some(mut sp) = self.spare.take() { sp.clone_from(&self.p); self.p = sp; cx.probe("continued_on_clone_from"); } }
            _ => {}
        }
        let space = self.p.input_buffer().len();
        let remaining = self.cap.saturating_sub(self.pos);
        let k = chunk(cx, self.style, space, remaining);
        let wire = self.wire;
        self.p.input_buffer()[..k].copy_from_slice(&wire[self.pos..self.pos + k]);
        self.pos += k;
        let out_before = self.p.output_buffer().len();
        let sb_before = self.p.stream_buffer().len();
        let boundary_before = self.p.is_record_boundary();
        let mut dest = dest_len.map(|l| vec![0xEEu8; l]);
        cx.ev(if dest.is_some() { "sparse_dest" } else { "sparse_buf" }, k as u64, dest_len.unwrap_or(0) as u64);
        let p = &mut self.p;
        let res = guard(|| p.parse(k, dest.as_deref_mut()));
        let res = match res {
            Ok(r) => r,
            Err(pm) => vfail!("panic", "stream::Parser::parse", "parse({k}, dest={dest_len:?}) panicked: {pm}"),
        };
        {
            // abstract state the public API exposes
            let cls = |n: usize| -> u64 { if n == 0 { 0 } else if n < 8 { 1 } else if n < 64 { 2 } else { 3 } };
            let h = fnv_u64(self.active.map_or(9, |a| a as u64), fnv_u64(u64::from(self.p.is_record_boundary()),
                fnv_u64(cls(self.p.stream_buffer().len()), fnv_u64(cls(self.p.output_buffer().len()), fnv_u64(cls(self.p.input_buffer().len()),
                fnv_u64(u64::from(dest_len.is_some()), fnv_u64(u64::from(res.is_err()), fnv_u64(u64::from(self.saw_end), 0x52))))))));
            cx.state(h);
        }
        match res {
            Ok(st) => {
                if let Some(f) = &self.failed {
                    vfail!("c03_error_not_sticky", "", "parse succeeded after it had reported {f}");
                }
                let grown = self.p.output_buffer().len() - out_before;
                vcheck!(st.output == grown, "c04_output_count", "Status.output {} but output_buffer grew by {grown}", st.output);
                if st.output > 0 { cx.ev("s_output", st.output as u64, 0); }
                match (&dest, self.active) {
                    (Some(d), Some(i)) => {
                        vcheck!(st.stream <= d.len(), oracle, "Status.stream {} exceeds dest {}", st.stream, d.len());
                        let off = self.taken[i];
                        let c = &self.m.content[i];
                        if off + st.stream > c.len() || c[off..off + st.stream] != d[..st.stream] {
                            vfail!(oracle, "dest_bytes", "dest received {} at offset {off} of stream {}; expected {}",
                                hex(&d[..st.stream]), self.streams[i], hex(&c[off.min(c.len())..(off + st.stream).min(c.len())]));
                        }
                        vcheck!(d[st.stream..].iter().all(|&b| b == 0xEE), oracle, "dest written beyond Status.stream");
                        self.taken[i] += st.stream;
                        if st.stream > 0 { cx.ev("deliver", st.stream as u64, i as u64); }
                    }
                    (Some(d), None) => {
                        vcheck!(st.stream == 0 && d.iter().all(|&b| b == 0xEE), oracle, "bytes delivered while no stream is active");
                    }
                    (None, _) => {
                        let now = self.p.stream_buffer().len();
                        vcheck!(now == sb_before + st.stream, oracle, "Status.stream {} but stream_buffer grew {} -> {}", st.stream, sb_before, now);
                        if st.stream > 0 { cx.ev("buffered", st.stream as u64, 0); }
                        if st.stream > 0 && sb_before > 0 { cx.probe("payload_moved_with_parsed_nonempty"); }
                    }
                }
                self.check_buffers(oracle)?;
                if st.stream_end {
                    match self.active {
                        None => {}
                        Some(i) => {
                            let delivered = self.taken[i] + self.p.stream_buffer().len();
                            let Some(s) = self.m.stop[i] else {
                                vfail!("c02_stream_end", "spurious", "stream_end reported for stream {} but the model has no terminating record (fed {})", self.streams[i], self.pos);
                            };
                            vcheck!(s + 8 <= self.pos, "c02_stream_end", "stream_end reported before the terminating header at {s} was fed (fed {})", self.pos);
                            vcheck!(delivered == self.m.content[i].len(), "c02_stream_end",
                                "stream_end for stream {} after {delivered} bytes; content is {} bytes", self.streams[i], self.m.content[i].len());
                            vcheck!(self.m.hold_limit(self.active) == s, "c02_stream_end", "stream_end although an abort/bad header precedes the terminator");
                            vcheck!(self.p.is_record_boundary(), "c02_stream_end", "held at end of stream but not at a record boundary");
                            self.saw_end = true;
                            cx.probe("held_back_header_seen");
                        }
                    }
                }
                let progress = k > 0 || st.stream > 0 || st.output > 0 || boundary_before != self.p.is_record_boundary();
                Ok((st.stream, st.stream_end, progress))
            }
            Err(e) => {
                let name = err_name(&e);
                cx.ev("s_error", 0, 0);
                match &self.failed {
                    Some(f) => vcheck!(*f == name, "c03_error_not_sticky", "error changed from {f} to {name}"),
                    None => {
                        // must be the model's barrier, reachable under the current selection
                        let lim = self.m.hold_limit(self.active);
                        match &e {
                            PErr::AbortRequest => {
                                vcheck!(self.m.abort == Some(lim) && lim + 8 <= self.pos, "c11_abort_reported", "AbortRequest reported but model abort is {:?} (limit {lim}, fed {})", self.m.abort, self.pos);
                                cx.probe("abort_in_stream");
                            }
                            PErr::UnknownVersion(v) => {
                                let ok = matches!(&self.m.fatal, Some((f, Fatal::UnknownVersion(mv))) if *f == lim && mv == v && lim + 8 <= self.pos);
                                vcheck!(ok, "c03_fatal_kind", "UnknownVersion({v}) reported but model says {:?} (limit {lim})", self.m.fatal);
                            }
                            other => vfail!("c03_fatal_kind", "", "unexpected stream parser error {}", err_name(other)),
                        }
                        self.failed = Some(name);
                    }
                }
                self.check_buffers(oracle)?;
                Ok((0, false, k > 0))
            }
        }
    }

    pub fn consume(&mut self, cx: &mut Ctx, j: usize) {
        let j = j.min(self.p.stream_buffer().len());
        if let Some(i) = self.active {
            self.taken[i] += j;
        }
        self.p.consume_stream(j);
        cx.ev("consume_stream", j as u64, 0);
    }

    pub fn drain_output(&mut self, cx: &mut Ctx, j: usize) {
        let ob = self.p.output_buffer();
        let j = j.min(ob.len());
        self.out_drained.extend_from_slice(&ob[..j]);
        self.p.consume_output(j);
        cx.ev("consume_output", j as u64, 0);
    }

    /// Selects a stream by index (None = ignore all); must be legal.
    pub fn select(&mut self, cx: &mut Ctx, idx: Option<usize>) -> VResult {
        let before_buf = self.p.stream_buffer().to_vec();
        let target = idx.map(|i| rt(self.streams[i]));
        cx.ev("set_stream", idx.map_or(99, |i| i as u64), 0);
        let p = &mut self.p;
        let r = guard(|| p.set_stream(target));
        match r {
            Ok(Ok(())) => {}
            Ok(Err(e)) => vfail!("c18_selection", "", "legal selection {target:?} rejected: {e}"),
            Err(pm) => vfail!("panic", "set_stream", "{pm}"),
        }
        vcheck!(self.p.active_stream() == target, "c18_selection", "active_stream() {:?} after selecting {target:?}", self.p.active_stream());
        if idx == self.active {
            vcheck!(self.p.stream_buffer() == &before_buf[..], "c18_reselect", "re-selecting the current stream changed buffered data");
        } else {
            vcheck!(self.p.stream_buffer().is_empty(), "c18_selection", "buffered data survives a stream change");
            self.active = idx;
            self.saw_end = false;
        }
        Ok(())
    }

    /// Conversion attempted on a clone at an arbitrary moment: succeeds exactly at record boundaries and then
    /// yields exactly the unread suffix of the fed bytes, starting at a record boundary of the wire.
    pub fn probe_conversion(&mut self, cx: &mut Ctx) -> VResult {
        let boundary = self.p.is_record_boundary();
        let fed = self.pos;
        let clone = self.p.clone();
        cx.ev("probe_conversion", u64::from(boundary), 0);
        match guard(move || clone.into_input()) {
            Ok(Ok(v)) => {
                vcheck!(boundary, "c03_conversion", "into_input succeeded away from a record boundary");
                vcheck!(v.len() <= fed && v[..] == self.wire[fed - v.len()..fed], "c05_leftover", "into_input() at an arbitrary moment: {} is not the unread suffix of the fed bytes", hex(&v));
                let at = fed - v.len();
                vcheck!(self.m.boundaries.contains(&at), "c05_leftover", "into_input() at an arbitrary moment starts at {at}, not a record boundary of the wire");
                vcheck!(at <= self.m.hold_limit(self.active).min(fed), "c05_leftover", "parser position {at} is beyond the record it must hold at ({})", self.m.hold_limit(self.active));
                cx.probe("conversion_probe_ok");
            }
            Ok(Err(PErr::Interrupted)) => {
                vcheck!(!boundary, "c03_conversion", "into_input refused at a record boundary");
                cx.probe("conversion_probe_interrupted");
            }
            Ok(Err(e)) => vfail!("c03_conversion", "", "into_input failed with {}", err_name(&e)),
            Err(pm) => vfail!("panic", "into_input", "{pm}"),
        }
        if self.p.output_buffer().is_empty() {
            let clone = self.p.clone();
            match guard(move || clone.into_request_parser().map(|_| ())) {
                Ok(Ok(())) => vcheck!(boundary, "c03_conversion", "into_request_parser succeeded away from a record boundary"),
                Ok(Err(PErr::Interrupted)) => vcheck!(!boundary, "c03_conversion", "into_request_parser refused at a record boundary"),
                Ok(Err(e)) => vfail!("c03_conversion", "", "into_request_parser failed with {}", err_name(&e)),
                Err(pm) => vfail!("panic", "into_request_parser", "{pm}"),
            }
        }
        Ok(())
    }

    /// One random caller action while reading.
    pub fn random_action(&mut self, cx: &mut Ctx, oracle: &str) -> Result<(usize, bool, bool), Violation> {
        if cx.ch.chance(1, 12) {
            self.probe_conversion(cx)?;
        }
        let sb = self.p.stream_buffer().len();
        let ob = self.p.output_buffer().len();
        let space = self.p.input_buffer().len();
        // forced moves to guarantee progress
        if space == 0 {
            if sb > 0 {
                let j = cx.ch.range(1, sb);
                self.consume(cx, j);
            }
            self.p.compress();
            cx.ev("compress", 0, 0);
            self.check_buffers(oracle)?;
            if self.p.input_buffer().is_empty() && self.p.stream_buffer().is_empty() {
                // raw region fills the buffer: only parsing can free it
                let dl = cx_dest(cx);
                let r = self.feed_parse(cx, Some(dl), oracle)?;
                self.p.compress();
                if !r.2 && !r.1 && self.p.input_buffer().is_empty() && dl > 0 && self.failed.is_none() {
                    // nothing can move: a unit larger than the buffer (stream parser has no stuck detection)
                    if self.allow_stuck { self.stuck = true; }
                    return Ok((0, r.1, false));
                }
                return Ok(r);
            }
            return Ok((0, false, true));
        }
        match cx.ch.weighted(&[5, 5, 2, 2, 2]) {
            0 if sb == 0 => {
                let l = cx_dest(cx);
                if l == 0 { cx.probe("dest_len_zero"); }
                self.feed_parse(cx, Some(l), oracle)
            }
            0 | 1 => self.feed_parse(cx, None, oracle),
            2 => {
                if sb > 0 {
                    let j = if cx.ch.chance(1, 2) { sb } else { cx.ch.range(0, sb) };
                    self.consume(cx, j);
                    self.check_buffers(oracle)?;
                }
                Ok((0, false, sb > 0))
            }
            3 => {
                let had_gaps = self.p.stream_buffer().len() > 0 && self.p.input_buffer().len() < self.p.input_buffer().len() + 1;
                let _ = had_gaps;
                let before = self.p.input_buffer().len();
                self.p.compress();
                cx.ev("compress", 0, 0);
                if self.p.input_buffer().len() > before && sb > 0 { cx.probe("compress_with_stream_data"); }
                vcheck!(self.p.input_buffer().len() >= before, oracle, "compress() shrank the input buffer");
                self.check_buffers(oracle)?;
                Ok((0, false, false))
            }
            _ => {
                if ob > 0 {
                    let j = if self.partial_drain_only { cx.ch.range(1, (ob / 3).max(1)).min(ob.saturating_sub(1)).max(if ob > 1 { 1 } else { 0 }) } else if cx.ch.chance(1, 2) { ob } else { cx.ch.range(0, ob) };
                    self.drain_output(cx, j);
                    self.check_buffers(oracle)?;
                }
                Ok((0, false, false))
            }
        }
    }

    /// Reads the active stream under a policy; returns when the policy is satisfied or input is exhausted.
    pub fn read_phase(&mut self, cx: &mut Ctx, policy: ReadPolicy, oracle: &str) -> VResult {
        if policy == ReadPolicy::Skip || self.active.is_none() {
            return Ok(());
        }
        let budget = if policy == ReadPolicy::Partial { cx.ch.range(0, 12) } else { usize::MAX };
        let mut steps = 0usize;
        let mut idle = 0;
        loop {
            if steps >= budget { cx.probe("stopped_mid_stream"); return Ok(()); }
            steps += 1;
            if self.c18 && cx.ch.chance(1, 6) {
                // rejected selections at arbitrary moments, including mid-record: must change nothing
                if !self.p.is_record_boundary() { cx.probe("rejected_selection_mid_record"); }
                try_illegal(cx, self)?;
            }
            if self.c18 && cx.ch.chance(1, 10) {
                // re-selecting the current stream is a no-op, also in the middle of a record
                if !self.p.is_record_boundary() { cx.probe("reselect_current_mid_record"); }
                let a = self.active;
                self.select(cx, a)?;
            }
            let (_, end, progress) = self.random_action(cx, oracle)?;
            if end || self.saw_end {
                // drain what is buffered so that "delivered" is complete
                let sb = self.p.stream_buffer().len();
                self.consume(cx, sb);
                return Ok(());
            }
            if self.failed.is_some() || self.stuck { return Ok(()); }
            if !progress && self.pos >= self.cap {
                // decisive settle step: with everything fed, one parse into the (emptied, compacted)
                // internal buffer processes all remaining raw data up to a hold
                let sb = self.p.stream_buffer().len();
                self.consume(cx, sb);
                self.p.compress();
                let (n, end2, prog2) = self.feed_parse(cx, None, oracle)?;
                if end2 || self.saw_end {
                    let sb = self.p.stream_buffer().len();
                    self.consume(cx, sb);
                    return Ok(());
                }
                if self.failed.is_some() { return Ok(()); }
                if n == 0 && !prog2 { idle += 1; } else { idle = 0; }
                if idle >= 2 { return Ok(()); }
            }
            if steps > self.wire.len() * 4 + 200 { vfail!("hang", "stream::Parser", "no progress after {steps} caller actions"); }
        }
    }

    /// Feeds and parses everything that is left (consuming and compacting as needed) until no progress.
    pub fn run_to_quiescence(&mut self, cx: &mut Ctx, oracle: &str) -> VResult {
        let mut idle = 0;
        let mut steps = 0;
        while idle < 3 {
            let sb = self.p.stream_buffer().len();
            self.consume(cx, sb);
            self.p.compress();
            let use_dest = self.p.stream_buffer().is_empty() && cx.ch.chance(1, 2);
            let dl = if use_dest { Some(cx.ch.range(1, 4096)) } else { None };
            let can_feed = !self.p.input_buffer().is_empty() && self.pos < self.cap;
            let (n, _end, progress) = self.feed_parse(cx, dl, oracle)?;
            if self.failed.is_some() { idle += 1; continue; }
            if progress || n > 0 { idle = 0; } else if !can_feed { idle += 1; }
            steps += 1;
            if steps > self.wire.len() * 4 + 200 { vfail!("hang", "stream::Parser", "quiescence not reached after {steps} steps"); }
        }
        // a parser held at an end-of-stream header legitimately stops consuming
        if self.pos < self.cap && self.failed.is_none() && !self.saw_end {
            if self.allow_stuck {
                self.stuck = true;
            } else {
                vfail!("hang", "stream::Parser", "parser stopped consuming input at {} of {} bytes with its buffer full", self.pos, self.cap);
            }
        }
        Ok(())
    }

    /// Checks that hold at quiescence with every byte up to `cap` fed.
    pub fn final_checks(&mut self, cx: &mut Ctx, oracle: &str) -> VResult {
        if self.pos < self.cap { return Ok(()); }
        let limit = self.m.hold_limit(self.active);
        // The model was computed on the whole wire; restrict to what was fed.
        let fed = self.pos;
        let exp_out = self.m.expected_replies(limit, fed);
        let got = self.total_out();
        if self.cap == self.wire.len() {
            vcheck!(got == exp_out, "c04_reply_stream", "at quiescence parser emitted {} expected {}", hex(&got), hex(&exp_out));
        }
        if let Some(i) = self.active {
            if self.failed.is_none() && self.cap == self.wire.len() {
                let delivered = self.taken[i] + self.p.stream_buffer().len();
                // everything of the stream that lies before the limit must have been delivered
                let reachable_all = self.m.stop[i].map_or(true, |s| s <= limit) ;
                if reachable_all && self.m.stop[i].is_some() && self.m.stop[i] == Some(limit) {
                    vcheck!(delivered == self.m.content[i].len(), oracle, "at quiescence stream {} delivered {delivered} of {} bytes", self.streams[i], self.m.content[i].len());
                    vcheck!(self.saw_end, "c02_stream_end", "terminating record at {:?} fed but stream_end never reported", self.m.stop[i]);
                }
                if self.m.stop[i].is_none() && limit == usize::MAX {
                    vcheck!(delivered == self.m.content[i].len(), oracle, "at quiescence stream {} delivered {delivered} of {} available bytes", self.streams[i], self.m.content[i].len());
                }
            }
        }
        // conversions
        let boundary = self.p.is_record_boundary();
        let clone = self.p.clone();
        match guard(move || clone.into_input()) {
            Ok(Ok(v)) => {
                vcheck!(boundary, "c03_conversion", "into_input succeeded away from a record boundary");
                vcheck!(v.len() <= fed && v[..] == self.wire[fed - v.len()..fed], "c05_leftover", "into_input() {} is not the unread suffix of the fed bytes", hex(&v));
                let at = fed - v.len();
                vcheck!(self.m.boundaries.contains(&at), "c05_leftover", "into_input() starts at {at}, which is not a record boundary of the wire");
                if self.cap == self.wire.len() {
                    let exp = self.m.final_pos(self.active);
                    vcheck!(at == exp, "c05_leftover", "into_input() starts at {at}; model says the parser stands at {exp}");
                }
                cx.probe("into_input_checked");
            }
            Ok(Err(PErr::Interrupted)) => {
                vcheck!(!boundary, "c03_conversion", "into_input refused at a record boundary");
            }
            Ok(Err(e)) => vfail!("c03_conversion", "", "into_input failed with {}", err_name(&e)),
            Err(pm) => vfail!("panic", "into_input", "{pm}"),
        }
        Ok(())
    }
}

/// Byte-at-a-time styles over very long wires cost a lot and add nothing: use larger chunks there.
pub fn calm(style: Style, wire_len: usize) -> Style {
    if wire_len > 12_000 && matches!(style, Style::OneByte | Style::Tiny) { Style::Large } else { style }
}

fn cx_dest(cx: &mut Ctx) -> usize {
    match cx.ch.weighted(&[4, 1, 3, 2, 1]) {
        0 => cx.ch.range(1, 64),
        1 => 0,
        2 => cx.ch.range(1, 9),
        3 => cx.ch.range(64, 5000),
        _ => 70000,
    }
}

pub const C02_PROBES: &[&str] = &[
    "continued_on_clone", "continued_on_clone_from", "handoff_via_into_request", "configured_size_below_24",
    "reply_flood", "getvalues_over_256_pairs",
    "buffer_over_64k",
    "conversion_probe_ok", "conversion_probe_interrupted",
    "record_65535", "payload_moved_with_parsed_nonempty", "held_back_header_seen", "dest_len_zero", "compress_with_stream_data",
    "stopped_mid_stream", "into_input_checked", "early_advance", "lookahead_at_handoff", "exact_fill_read", "fed_after_done",
    "noise_getvalues", "noise_unknown_type", "noise_foreign_begin", "noise_stale_params", "noise_huge_record", "noise_foreign_id",
];
pub const C18H_PROBES: &[&str] = &[
    "continued_on_clone", "continued_on_clone_from", "handoff_via_into_request", "configured_size_below_24",
    "buffer_over_64k",
    "conversion_probe_ok", "conversion_probe_interrupted",
    "noncompliant_order", "early_advance", "rejected_selection", "rejected_selection_mid_record", "reselect_current_mid_record", "held_back_header_seen",
    "stopped_mid_stream", "into_input_checked", "dest_len_zero", "compress_with_stream_data",
];
pub const C05_PROBES: &[&str] = &[
    "continued_on_clone", "continued_on_clone_from", "handoff_via_into_request", "configured_size_below_24",
    "conversion_probe_ok", "conversion_probe_interrupted",
    "chain_requests_2plus", "lookahead_at_handoff", "handoff_full_buffer", "fed_after_done", "converted_with_stream_selected", "converted_with_unconsumed_stream_data", "stopped_mid_stream", "held_back_header_seen",
    "exact_fill_read", "parse0_on_full_buffer",
];
pub const C11S_PROBES: &[&str] = &["abort_in_stream", "held_back_header_seen"];
#[allow(dead_code)]
pub const D1S_PROBES: &[&str] = &[
    "record_65535", "noncompliant_order", "payload_moved_with_parsed_nonempty", "held_back_header_seen",
    "dest_len_zero", "compress_with_stream_data", "stopped_mid_stream", "into_input_checked", "abort_in_stream",
    "early_advance", "rejected_selection", "rejected_selection_mid_record", "fed_after_done", "lookahead_at_handoff", "handoff_full_buffer", "chain_requests_2plus",
    "exact_fill_read", "noise_getvalues", "noise_unknown_type", "noise_foreign_begin", "noise_stale_params", "noise_huge_record",
];

pub struct ReqCase {
    pub recs: Vec<Rec>,
    pub id: u16,
    pub role: u16,
}

/// One whole request (preamble + streams) with noise.
pub fn gen_request(cx: &mut Ctx, noise_num: u32, pair_cap: usize, noise_pair_max: usize, compliant: bool, idle_noise: bool, phase: Phase) -> ReqCase {
    gen_request_n(cx, 4, noise_num, pair_cap, noise_pair_max, compliant, idle_noise, phase)
}

/// Parameters of a request whose every Params / GetValues record stays below 12 bytes, so that configured buffer
/// sizes below the 24-byte minimum apply: (max_pairs, pair_cap, noise_pair_max).
pub const TINY_UNITS: (usize, usize, usize) = (0, 0, 2);

pub fn gen_request_n(cx: &mut Ctx, max_pairs: usize, noise_num: u32, pair_cap: usize, noise_pair_max: usize, compliant: bool, idle_noise: bool, phase: Phase) -> ReqCase {
    let id = gen_id(cx);
    let role = gen_role(cx);
    let flags = cx.ch.byte();
    let pairs = gen_pairs(cx, max_pairs, pair_cap, false);
    let mut recs = Vec::new();
    preamble_records(cx, &mut recs, id, role, flags, &pairs, noise_num, noise_pair_max, idle_noise);
    stream_records(cx, &mut recs, id, role, noise_num, noise_pair_max, compliant, phase);
    junk_reserved(cx, &mut recs);
    ReqCase { recs, id, role }
}

pub fn pick_small_bufsize(cx: &mut Ctx, need: usize) -> usize {
    if need <= 24 && cx.ch.chance(2, 3) {
        // configured sizes below the protocol minimum: same effective size (24) on every construction route
        cx.probe("configured_size_below_24");
        return cx.ch.range(0, 24);
    }
    match cx.ch.weighted(&[3, 3, 2, 2]) {
        0 => need.max(24),
        1 => need.max(24) + cx.ch.range(0, 64),
        2 => cx.ch.one_of(&[4096usize, 8192]).max(need),
        _ => cx.ch.range(need.max(24), need.max(24) + 70000),
    }
}

/// Parses a preamble with the real request parser and hands off to a stream parser.
fn role_has_streams(rp: &request::Parser<'_>) -> bool {
    // peek at the parsed request through a clone
    match rp.clone().into_request() {
        Ok((req, _)) => !req.role.input_streams().is_empty(),
        Err(_) => false,
    }
}

pub fn handoff<'c>(
    cx: &mut Ctx,
    cfg: &'c fastcgi_server::Config,
    mut rp: request::Parser<'c>,
    wire: &[u8],
    pos: &mut usize,
    cap: usize,
    style: Style,
    expect_out: &[u8],
) -> Result<(stream::Parser<'c>, Vec<u8>), Violation> {
    let opts = DriveOpts { style, cap, check_nonempty: true, replies: Some(expect_out.to_vec()), done_by: None };
    let d = drive_request(cx, &mut rp, wire, pos, &opts, "c04_reply_stream")?;
    vcheck!(d.done, "c01_not_done", "request parser did not finish a complete preamble (fed {})", d.fed);
    vcheck!(d.output == expect_out, "c04_reply_stream", "preamble replies {} expected {}", hex(&d.output), hex(expect_out));
    // a driver may hand further reads to the parser after `done` (read-ahead): they must simply be kept
    for _ in 0..2 {
        if *pos < cap && cx.ch.chance(1, 4) {
            let space = rp.input_buffer().len();
            let k = chunk(cx, style, space, cap - *pos);
            rp.input_buffer()[..k].copy_from_slice(&wire[*pos..*pos + k]);
            *pos += k;
            cx.probe("fed_after_done");
            cx.ev("feed_after_done", k as u64, 0);
            let rpm = &mut rp;
            match guard(|| { let y = rpm.parse(k); (y.done, y.output.len()) }) {
                Ok((done, out)) => vcheck!(done && out == 0, "c03_final_not_sticky", "parse() after done returned done={done} with {out} output bytes"),
                Err(p) => vfail!("panic", "request::Parser::parse", "call after done: {p}"),
            }
        }
    }
    // (not for roles without input streams: their stream parser ignores everything, so announcing the leftover to it
    // would also swallow a following request's records - the same no-multiplexing rule as elsewhere)
    if role_has_streams(&rp) && cx.ch.chance(1, 4) {
        // the other documented route: request plus leftover, then a stand-alone stream parser fed with the leftover
        cx.probe("handoff_via_into_request");
        let (req, left) = match guard(move || rp.into_request()) {
            Ok(Ok(v)) => v,
            Ok(Err(e)) => vfail!("c01_result", "", "into_request failed: {}", err_name(&e)),
            Err(p) => vfail!("panic", "into_request", "{p}"),
        };
        let mut sp = match guard(|| stream::Parser::new(cfg, req)) { Ok(sp) => sp, Err(p) => vfail!("panic", "stream::Parser::new", "{p}") };
        let eff = sp.input_buffer().len();
        vcheck!(eff == effective(cfg.buffer_size), "c06_effective_bufsize", "stand-alone stream parser: effective buffer {eff} for configured {}", cfg.buffer_size);
        vcheck!(left.len() <= eff, "c05_leftover", "leftover of {} bytes does not fit the {eff}-byte buffer it came from", left.len());
        sp.input_buffer()[..left.len()].copy_from_slice(&left);
        // hand the leftover over without interpreting it yet: the driver's first parse does that
        let spm = &mut sp;
        let n = left.len();
        match guard(|| spm.parse(n, Some(&mut []))) {
            Ok(Ok(st)) => vcheck!(st.stream == 0, "c02_delivery", "bytes delivered into an empty dest"),
            Ok(Err(_)) => {} // an abort / bad header right at the front: the driver sees it again
            Err(p) => vfail!("panic", "stream::Parser::parse", "{p}"),
        }
        return Ok((sp, d.output));
    }
    match guard(move || rp.into_stream_parser()) {
        Ok(Ok(sp)) => Ok((sp, d.output)),
        Ok(Err(e)) => vfail!("c01_result", "", "into_stream_parser failed: {}", err_name(&e)),
        Err(p) => vfail!("panic", "into_stream_parser", "{p}"),
    }
}

fn longest_pair(recs: &[Rec]) -> usize {
    // conservative: longest Params / GetValues content bounds the longest pair
    recs.iter().filter(|r| r.rtype == PARAMS || r.rtype == GETVALUES).map(|r| r.content.len()).max().unwrap_or(0)
}

/// C02 / C04-stream / C18-histories: one request, stream parser under arbitrary caller schedules.
pub fn stream_scenario(cx: &mut Ctx, c18: bool) -> VResult {
    cx.declare(&[], if c18 { C18H_PROBES } else { C02_PROBES });
    let oracle = if c18 { "c18_delivery" } else { "c02_delivery" };
    let noise = cx.ch.pick(5);
    let compliant = !c18 || cx.ch.chance(1, 4);
    let rc = if cx.ch.chance(1, 12) { gen_request_n(cx, TINY_UNITS.0, noise, TINY_UNITS.1, TINY_UNITS.2, compliant, false, Phase::Stream) } else { gen_request(cx, noise, 60, 24, compliant, false, Phase::Stream) };
    let mut rc = rc;
    let flood = !c18 && cx.ch.chance(1, 40);
    if flood {
        // hundreds of unknown-type records in the stream phase: several KiB of replies pending at once
        let at = rc.recs.iter().position(|r| r.rtype == PARAMS && r.id == rc.id && r.content.is_empty()).expect("params end") + 1;
        let n = cx.ch.range(300, 700);
        let t = cx.ch.one_of(&[0u8, 12, 200, 255]);
        for _ in 0..n { rc.recs.insert(at, Rec::new(t, 0, Vec::new(), 0)); }
        cx.probe("reply_flood");
    }
    let many_gv = !c18 && !flood && cx.ch.chance(1, 40);
    let mut gv_len = 0;
    if many_gv {
        // one GetValues query with hundreds of pairs in the stream phase (examined whole by one call below)
        let at = rc.recs.iter().position(|r| r.rtype == PARAMS && r.id == rc.id && r.content.is_empty()).expect("params end") + 1;
        let at = cx.ch.range(at, rc.recs.len());
        let body = gen_getvalues_many(cx);
        gv_len = body.len();
        let pad = gen_padding(cx);
        rc.recs.insert(at, Rec::new(GETVALUES, 0, body, pad));
    }
    let wire = encode_all(&rc.recs);
    let need = longest_pair(&rc.recs) + 13;
    let mut bufsize = pick_small_bufsize(cx, need);
    if many_gv && cx.ch.chance(3, 4) { bufsize = bufsize.max(gv_len + 300 + cx.ch.range(0, 5000)); }
    if wire.len() > 65536 && cx.ch.chance(1, 2) {
        // a buffer that can hold more than 64 KiB of raw data behind one header
        bufsize = cx.ch.one_of(&[65552usize, 70000, 131072, 200000]);
        cx.probe("buffer_over_64k");
    }
    let max_conns = 5;
    let pm = model::preamble(&wire, 0, max_conns);
    let PreOutcome::Done(info) = &pm.outcome else { panic!("harness: generated preamble incomplete") };
    let sm = model::stream(&wire, info.end, info.id, info.role, max_conns);
    let cfg = config(bufsize, max_conns);
    let style = if many_gv && cx.ch.chance(3, 4) { if cx.ch.chance(1, 2) { Style::Whole } else { Style::Large } } else { calm(pick_style(cx), wire.len()) };
    if cx.want_sample {
        let recs: Vec<String> = rc.recs.iter().take(30).map(Rec::short).collect();
        cx.sample = Some(format!("role={} id={} bufsize={} style={:?} c18={} records=[{}]", rc.role, rc.id, bufsize, style, c18, recs.join(" ")));
    }
    let mut pos = 0;
    let rp = request::Parser::new(&cfg);
    // look-ahead at the hand-off is whatever the chunk style read beyond the preamble
    let (sp, _) = handoff(cx, &cfg, rp, &wire, &mut pos, wire.len(), style, &model::concat_replies(&pm.replies))?;
    if pos > info.end { cx.probe("lookahead_at_handoff"); }
    vcheck!(sp.request.request_id.get() == info.id, "c05_handoff_request", "wrong request after hand-off");
    let mut d = SDriver::new(sp, &wire, pos, wire.len(), &sm, info.role, style);
    d.c18 = c18;
    d.partial_drain_only = flood;
    vcheck!(d.p.active_stream() == d.streams.first().map(|&s| rt(s)), "c18_initial", "initial active stream {:?}", d.p.active_stream());
    cx.nontrivial = true;
    let n = d.streams.len();
    let mut i = 0;
    while i < n {
        if d.active != Some(i) {
            d.select(cx, Some(i))?;
        }
        let policy = if c18 {
            match cx.ch.weighted(&[2, 3, 2]) { 0 => ReadPolicy::Full, 1 => ReadPolicy::Partial, _ => ReadPolicy::Skip }
        } else {
            // C02: mostly read to the end; sometimes advance early (mid-record included), which is a legal schedule
            match cx.ch.weighted(&[4, 1, 1]) { 0 => ReadPolicy::Full, 1 => ReadPolicy::Partial, _ => ReadPolicy::Skip }
        };
        if c18 {
            // illegal selections at arbitrary moments: rejected, nothing changes
            try_illegal(cx, &mut d)?;
            if cx.ch.chance(1, 3) { d.select(cx, Some(i))?; }
        }
        d.read_phase(cx, policy, oracle)?;
        if d.failed.is_some() { break; }
        if policy != ReadPolicy::Full { cx.probe("early_advance"); }
        if !c18 && policy == ReadPolicy::Full && !d.saw_end && d.pos >= d.cap {
            // complete wire, Full policy: end must have been seen
            vfail!("c02_stream_end", "missing", "all bytes fed but stream_end was not reported for stream {}", d.streams[i]);
        }
        // C18 may also jump over the next stream
        if c18 && i + 1 < n && cx.ch.chance(1, 4) { i += 1; }
        i += 1;
    }
    if d.failed.is_none() && (c18 || cx.ch.chance(1, 2)) {
        // select none, parse everything that is left
        if d.active.is_some() || n == 0 {
            if n > 0 { d.select(cx, None)?; }
        }
        if c18 { try_illegal(cx, &mut d)?; }
    }
    d.run_to_quiescence(cx, oracle)?;
    d.final_checks(cx, oracle)?;
    Ok(())
}

/// Attempts every rejected selection for the current state; each must fail and change nothing.
fn try_illegal(cx: &mut Ctx, d: &mut SDriver<'_, '_>) -> VResult {
    let role_streams_rt: Vec<RecordType> = d.streams.iter().map(|&s| rt(s)).collect();
    for cand in [RecordType::Stdin, RecordType::Data] {
        let legal = match (role_streams_rt.iter().position(|&s| s == cand), d.active) {
            (None, _) => false,
            (Some(_), None) => false,
            (Some(ci), Some(ai)) => ci >= ai,
        };
        if legal { continue; }
        let before_active = d.p.active_stream();
        let before_buf = d.p.stream_buffer().to_vec();
        let before_boundary = d.p.is_record_boundary();
        let p = &mut d.p;
        match guard(|| p.set_stream(Some(cand))) {
            Ok(Err(_)) => {}
            Ok(Ok(())) => vfail!("c18_selection", "accepted_illegal", "selection {cand:?} accepted with active {:?} role streams {:?}", before_active, role_streams_rt),
            Err(pm) => vfail!("panic", "set_stream", "{pm}"),
        }
        vcheck!(d.p.active_stream() == before_active && d.p.stream_buffer() == &before_buf[..] && d.p.is_record_boundary() == before_boundary,
            "c18_selection", "rejected selection changed parser state");
        cx.probe("rejected_selection");
        cx.ev("illegal_select", 0, 0);
    }
    Ok(())
}

/// C18 table: all roles x current selections x requested selections, decided exhaustively.
pub fn c18_table(cx: &mut Ctx) -> VResult {
    use fastcgi_server::protocol::Role;
    let cfg = config(64, 1);
    let mut rows = 0u64;
    for role in [RESPONDER, AUTHORIZER, FILTER] {
        let streams = role_streams(role);
        // library's view of the role order
        let lrole = Role::try_from(role).expect("role");
        let lib_streams: Vec<u8> = lrole.input_streams().iter().map(|&s| u8::from(s)).collect();
        vcheck!(lib_streams == streams, "c18_role_order", "Role::input_streams {:?} != {:?}", lib_streams, streams);
        let mut cur = None;
        for (i, &s) in streams.iter().enumerate() {
            let nx = lrole.next_input_stream(cur);
            vcheck!(nx == Some(rt(s)), "c18_role_order", "next_input_stream({cur:?}) = {nx:?}, expected {}", s);
            cur = nx;
            let _ = i;
        }
        vcheck!(lrole.next_input_stream(cur).is_none(), "c18_role_order", "next_input_stream after last is not None");
        // current selection: index 0..n or None (n)
        let n = streams.len();
        for cur_i in 0..=n {
            for req_i in 0..=2usize {
                // requested: 0 = Stdin, 1 = Data, 2 = None
                let mut wire = Vec::new();
                begin(7, role, 1, 0).encode(&mut wire);
                Rec::new(PARAMS, 7, Vec::new(), 0).encode(&mut wire);
                // some buffered stream data for the first stream
                if n > 0 { Rec::new(streams[0], 7, b"abcdef".to_vec(), 2).encode(&mut wire); }
                let mut rp = request::Parser::new(&cfg);
                rp.input_buffer()[..wire.len()].copy_from_slice(&wire);
                let y = rp.parse(wire.len());
                vcheck!(y.done, "harness_model", "table preamble not done");
                let mut sp = rp.into_stream_parser().map_err(|e| Violation::new("c18_table", "", format!("{e}")))?;
                let initial = if n > 0 { Some(rt(streams[0])) } else { None };
                vcheck!(sp.active_stream() == initial, "c18_initial", "role {role}: initial active {:?}", sp.active_stream());
                // move to the current selection
                let cur_sel = if cur_i < n { Some(rt(streams[cur_i])) } else { None };
                if cur_sel != initial {
                    sp.set_stream(cur_sel).map_err(|e| Violation::new("c18_selection", "", format!("forward move rejected: {e}")))?;
                } else if n > 0 {
                    let _ = sp.parse(0, None);
                }
                let buf_before = sp.stream_buffer().to_vec();
                let requested = match req_i { 0 => Some(RecordType::Stdin), 1 => Some(RecordType::Data), _ => None };
                let expect_ok = match requested {
                    None => true,
                    Some(r) => match (streams.iter().position(|&s| rt(s) == r), cur_i < n) {
                        (Some(ri), true) => ri >= cur_i,
                        _ => false,
                    },
                };
                let res = guard(|| sp.set_stream(requested)).map_err(|p| Violation::new("panic", "set_stream", p))?;
                rows += 1;
                vcheck!(res.is_ok() == expect_ok, "c18_selection", "role {role} current {cur_sel:?} requested {requested:?}: accepted={} expected={expect_ok}", res.is_ok());
                if !expect_ok {
                    vcheck!(sp.active_stream() == cur_sel && sp.stream_buffer() == &buf_before[..], "c18_selection", "rejected selection changed state");
                } else if requested == cur_sel {
                    vcheck!(sp.active_stream() == cur_sel && sp.stream_buffer() == &buf_before[..], "c18_reselect", "re-selection changed buffered data");
                    if cur_i == 0 && n > 0 { vcheck!(buf_before == b"abcdef", "harness_model", "table: expected buffered data"); }
                } else {
                    vcheck!(sp.active_stream() == requested && sp.stream_buffer().is_empty(), "c18_selection", "accepted selection not applied");
                }
            }
        }
    }
    cx.ev("table_rows", rows, 0);
    Ok(())
}

/// C05: k sequential requests through the conversion chain with one shared buffer.
pub fn c05(cx: &mut Ctx) -> VResult {
    cx.declare(&[], C05_PROBES);
    let k = 1 + cx.ch.weighted(&[2, 4, 3, 1]);
    if k >= 2 { cx.probe("chain_requests_2plus"); }
    let noise = cx.ch.pick(4);
    let tiny = cx.ch.chance(1, 10);
    let mut reqs = Vec::new();
    let mut all: Vec<Rec> = Vec::new();
    let mut bounds = Vec::new(); // (start, end) record index per request
    for i in 0..k {
        let idle = i == 0 || cx.ch.chance(1, 2);
        let rc = if tiny { gen_request_n(cx, TINY_UNITS.0, noise, TINY_UNITS.1, TINY_UNITS.2, true, idle, Phase::Either) } else { gen_request(cx, noise, 60, 24, true, idle, Phase::Either) };
        bounds.push((all.len(), all.len() + rc.recs.len()));
        all.extend(rc.recs.iter().cloned());
        reqs.push(rc);
    }
    // byte offsets of request boundaries
    let mut offs = vec![0usize];
    let mut wire = Vec::new();
    for (i, r) in all.iter().enumerate() {
        r.encode(&mut wire);
        if bounds.iter().any(|b| b.1 == i + 1) { offs.push(wire.len()); }
    }
    let need = longest_pair(&all) + 13;
    let bufsize = pick_small_bufsize(cx, need);
    let max_conns = 2;
    let cfg = config(bufsize, max_conns);
    let style = calm(pick_style(cx), wire.len());
    if cx.want_sample {
        cx.sample = Some(format!("k={k} bufsize={bufsize} style={style:?} wire={} bytes roles={:?}", wire.len(), reqs.iter().map(|r| r.role).collect::<Vec<_>>()));
    }
    cx.nontrivial = true;
    let mut rp = request::Parser::new(&cfg);
    let mut pos = 0usize;
    let mut model_start = 0usize;
    for i in 0..k {
        let req_end = offs[i + 1];
        let pm = model::preamble(&wire, model_start, max_conns);
        let PreOutcome::Done(info) = &pm.outcome else {
            vfail!("harness_model", "", "chain: model does not complete preamble {i} from {model_start}");
        };
        vcheck!(info.id == reqs[i].id && info.role == reqs[i].role, "harness_model", "chain: model found request {} expected {}", info.id, reqs[i].id);
        let sm = model::stream(&wire, info.end, info.id, info.role, max_conns);
        // Reading policy decides how far feeding may run ahead (see DESIGN: exactness of M-conn).
        let n = role_streams(info.role).len();
        // once look-ahead reaches into the next request, only "read to the hold" keeps the stream
        // parser from interpreting the next request's records
        let read_all = n > 0 && (pos > req_end || cx.ch.chance(1, 2));
        let cap = if read_all || pos > req_end { wire.len() } else { req_end };
        let hcap = cap.max(pos);
        let (sp, _) = handoff(cx, &cfg, rp, &wire, &mut pos, hcap, style, &model::concat_replies(&pm.replies))?;
        if pos > info.end { cx.probe("lookahead_at_handoff"); }
        // environment equals that of a separate single-request run
        check_request(cx, &sp.request, info, "c05_chain_request")?;
        let mut d = SDriver::new(sp, &wire, pos, cap.max(pos), &sm, info.role, style);
        if read_all {
            for s in 0..n {
                if d.active != Some(s) { d.select(cx, Some(s))?; }
                d.read_phase(cx, ReadPolicy::Full, "c05_chain_stream")?;
                vcheck!(d.saw_end || d.failed.is_some(), "c02_stream_end", "chain: stream {} of request {i} did not end", d.streams[s]);
                vcheck!(d.taken[s] == sm.content[s].len(), "c05_chain_stream", "chain: request {i} stream {} delivered {} of {}", d.streams[s], d.taken[s], sm.content[s].len());
            }
        } else {
            for s in 0..n {
                if d.active != Some(s) { d.select(cx, Some(s))?; }
                let pol = match cx.ch.pick(3) { 0 => ReadPolicy::Skip, 1 => ReadPolicy::Partial, _ => ReadPolicy::Full };
                d.read_phase(cx, pol, "c05_chain_stream")?;
                if pol != ReadPolicy::Full { break; }
            }
        }
        // as close() does: select none, parse to a record boundary only if not at one. The documented
        // precondition of the conversion is only "record boundary + empty output buffer", so sometimes the
        // stream stays selected and extracted-but-unconsumed stream data is left in the internal buffer.
        let deselect = n == 0 || d.active.is_none() || !cx.ch.chance(1, 3);
        if n > 0 && deselect { d.select(cx, None)?; }
        if !deselect { cx.probe("converted_with_stream_selected"); }
        let mut guard_steps = 0;
        while !d.p.is_record_boundary() {
            if deselect || d.p.input_buffer().is_empty() {
                let sb = d.p.stream_buffer().len();
                d.consume(cx, sb);
            }
            d.p.compress();
            d.feed_parse(cx, None, "c05_chain_stream")?;
            guard_steps += 1;
            if d.pos >= d.cap && guard_steps > 8 { break; }
            if guard_steps > wire.len() + 64 { vfail!("hang", "record_boundary", "no record boundary reached"); }
        }
        vcheck!(d.p.is_record_boundary(), "c05_chain", "request {i}: no record boundary although the whole request was fed");
        // where does the stream parser stand? learn it from into_input() on a clone and check it
        let clone = d.p.clone();
        let left = match guard(move || clone.into_input()) {
            Ok(Ok(v)) => v,
            Ok(Err(e)) => vfail!("c05_leftover", "", "into_input at boundary failed: {}", err_name(&e)),
            Err(p) => vfail!("panic", "into_input", "{p}"),
        };
        let fed = d.pos;
        vcheck!(left.len() <= fed && left[..] == wire[fed - left.len()..fed], "c05_leftover", "hand-off input {} is not the unread suffix of the fed bytes", hex(&left));
        let at = fed - left.len();
        vcheck!(sm.boundaries.contains(&at) && at <= req_end, "c05_leftover", "hand-off position {at} is not a record boundary of request {i}");
        if left.len() == effective(bufsize) { cx.probe("handoff_full_buffer"); }
        // replies owed by the stream parser up to `at`
        let exp = sm.expected_replies(at, fed);
        let got = d.total_out();
        vcheck!(got == exp, "c04_reply_stream", "chain: request {i} stream-phase replies {} expected {}", hex(&got), hex(&exp));
        let ob = d.p.output_buffer().len();
        d.drain_output(cx, ob);
        if !d.p.stream_buffer().is_empty() { cx.probe("converted_with_unconsumed_stream_data"); }
        let sp = d.p;
        pos = fed;
        rp = match guard(move || sp.into_request_parser()) {
            Ok(Ok(p)) => p,
            Ok(Err(e)) => vfail!("c05_handoff", "", "into_request_parser failed: {}", err_name(&e)),
            Err(p) => vfail!("panic", "into_request_parser", "{p}"),
        };
        model_start = at;
    }
    // after the last request: the request parser holds exactly the unread suffix
    let tail = wire.len();
    let opts = DriveOpts { style, cap: tail, check_nonempty: true, replies: None, done_by: None };
    let d = drive_request(cx, &mut rp, &wire, &mut pos, &opts, "c05_chain")?;
    let pm = model::preamble(&wire, model_start, max_conns);
    vcheck!(!d.done || !matches!(pm.outcome, PreOutcome::Incomplete), "c05_chain", "request parser finished on leftover records that contain no request");
    vcheck!(d.output == model::concat_replies(&pm.replies), "c04_reply_stream", "chain tail replies {} expected {}", hex(&d.output), hex(&model::concat_replies(&pm.replies)));
    Ok(())
}

/// C11 (sync part): abort in the stream phase is reported, sticky, and skipped by the next request parser.
pub fn c11_sync(cx: &mut Ctx) -> VResult {
    cx.declare(&[], C11S_PROBES);
    let noise = cx.ch.pick(3);
    let rc = gen_request(cx, noise, 40, 24, true, false, Phase::Either);
    // insert an AbortRequest (own id) after a random record of the stream phase
    let first_stream = rc.recs.iter().position(|r| r.rtype == PARAMS && r.id == rc.id && r.content.is_empty()).expect("params end") + 1;
    let at = cx.ch.range(first_stream, rc.recs.len());
    let mut recs = rc.recs.clone();
    let bl = if cx.ch.chance(1, 3) { cx.ch.range(1, 16) } else { 0 };
    let body = gen_bytes(cx, bl);
    let pad = gen_padding(cx);
    recs.insert(at, Rec::new(ABORT, rc.id, body, pad));
    // sometimes also a foreign abort before it (ignored)
    if cx.ch.chance(1, 3) {
        let fid = gen_other_id(cx, rc.id, true);
        recs.insert(at, Rec::new(ABORT, fid, Vec::new(), 0));
    }
    // a following request
    let next = gen_request(cx, 0, 40, 24, true, false, Phase::Either);
    let split = recs.len();
    recs.extend(next.recs.iter().cloned());
    let wire = encode_all(&recs);
    let first_len: usize = recs[..split].iter().map(Rec::len).sum();
    let need = longest_pair(&recs) + 13;
    let bufsize = pick_small_bufsize(cx, need);
    let cfg = config(bufsize, 4);
    let style = calm(pick_style(cx), wire.len());
    if cx.want_sample {
        cx.sample = Some(format!("abort after record {at} role={} bufsize={bufsize} style={style:?}", rc.role));
    }
    cx.nontrivial = true;
    let pm = model::preamble(&wire, 0, 4);
    let PreOutcome::Done(info) = &pm.outcome else { panic!("harness: incomplete") };
    let sm = model::stream(&wire, info.end, info.id, info.role, 4);
    let mut pos = 0;
    let rp = request::Parser::new(&cfg);
    // feeding is capped at the end of the first request so that the stream parser never sees the next one
    let (sp, _) = handoff(cx, &cfg, rp, &wire, &mut pos, first_len, style, &model::concat_replies(&pm.replies))?;
    let mut d = SDriver::new(sp, &wire, pos, first_len, &sm, info.role, style);
    let n = d.streams.len();
    for s in 0..n {
        if d.active != Some(s) { d.select(cx, Some(s))?; }
        d.read_phase(cx, ReadPolicy::Full, "c11_prefix")?;
        if d.failed.is_some() { break; }
    }
    if d.failed.is_none() {
        // abort lies behind the last stream's end (or role has no streams): reached only when ignoring streams
        if n > 0 { d.select(cx, None)?; }
        d.run_to_quiescence(cx, "c11_prefix")?;
    }
    vcheck!(d.failed.as_deref() == Some("AbortRequest"), "c11_abort_reported", "own-id AbortRequest fed completely but parse never reported it (failed={:?})", d.failed);
    // sticky: more calls give the same error (feed_parse checks equality)
    for _ in 0..3 { d.feed_parse(cx, None, "c11_prefix")?; }
    // the header is retained: conversion works and the next request parser skips the abort record
    vcheck!(d.p.is_record_boundary(), "c11_abort_boundary", "not at a record boundary after AbortRequest");
    let ob = d.p.output_buffer().len();
    d.drain_output(cx, ob);
    let fed = d.pos;
    let sp = d.p;
    let mut rp = match guard(move || sp.into_request_parser()) {
        Ok(Ok(p)) => p,
        Ok(Err(e)) => vfail!("c11_abort_boundary", "", "into_request_parser after abort failed: {}", err_name(&e)),
        Err(p) => vfail!("panic", "into_request_parser", "{p}"),
    };
    let mut pos = fed;
    let a = sm.abort.expect("model abort");
    let pm2 = model::preamble(&wire, a, 4);
    let PreOutcome::Done(info2) = &pm2.outcome else { panic!("harness: next request incomplete") };
    let opts = DriveOpts { style, cap: wire.len(), check_nonempty: true, replies: Some(model::concat_replies(&pm2.replies)), done_by: None };
    let dr = drive_request(cx, &mut rp, &wire, &mut pos, &opts, "c11_next_request")?;
    vcheck!(dr.done, "c11_next_request", "next request not parsed after an aborted one");
    match guard(move || rp.into_request()) {
        Ok(Ok((req, _))) => check_request(cx, &req, info2, "c11_next_request")?,
        Ok(Err(e)) => vfail!("c11_next_request", "", "next request failed: {}", err_name(&e)),
        Err(p) => vfail!("panic", "into_request", "{p}"),
    }
    Ok(())
}
