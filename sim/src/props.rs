//! Registry: property -> scenarios, batch sizes, evidence texts.

use crate::batch::{PropDef, Scen};
use crate::core::{Ctx, VResult};
use crate::{d1c03, d1req, d1stream, d2, d2sema, d3, d4};

const REAL_SYNC: &[&str] = &[
    "fastcgi_server::parser::request::Parser (built from /repo working tree, debug-assertions + overflow-checks on)",
    "fastcgi_server::parser::stream::Parser",
    "fastcgi_server::protocol::* / cgi::* as used by the parsers",
    "compact_str, smallvec, replace_with, strum (registry versions)",
];
const STUB_SYNC: &[&str] = &[
    "the caller of the parser (caller-schedule simulator: chooser-driven feed/parse/consume/compress/select)",
    "the FastCGI client (independent wire codec + traffic generator)",
    "the transport (bytes copied into input_buffer() in chooser-picked chunks)",
];

const REAL_ASYNC: &[&str] = &[
    "fastcgi_server::async_io::{Token::run, Request, StreamWriter, Runner} (built from /repo working tree, debug-assertions + overflow-checks on, feature verif-hooks)",
    "fastcgi_server::parser::* underneath",
    "futures-util (lock::Mutex, AtomicWaker, select, AsyncReadExt/AsyncWriteExt), async-lock Semaphore, event-listener (registry versions)",
];
const STUB_ASYNC: &[&str] = &[
    "the async runtime (deterministic executor: strict wake-only polling, chooser-picked task order, optional spurious polls)",
    "the socket (SimRead/SimWrite: short reads/writes, Pending, EOF, errors, zero writes)",
    "the web server (peer model: open-loop or closed-loop client script)",
    "the application (chooser-driven handler interpreter)",
];

fn c02(cx: &mut Ctx) -> VResult { d1stream::stream_scenario(cx, false) }
fn c18h(cx: &mut Ctx) -> VResult { d1stream::stream_scenario(cx, true) }

fn s(name: &'static str, f: fn(&mut Ctx) -> VResult, quick: u64, thorough: u64) -> Scen {
    Scen { name, f, quick, thorough, exhaustive: false }
}

pub fn all() -> Vec<PropDef> {
    let mut v = Vec::new();
    v.push(PropDef {
        miri: None,
        id: "C01", level: "exploration", driver: "D1 caller-schedule simulator (sync request parser)",
        scens: vec![s("preamble", d1req::c01, 180_000, 6_000_000)],
        rule: "each run = one seeded preamble (id/role/flags, pair list from the boundary classes, Params cut into records with biased cuts, padding, noise records, buffer size >= longest pair + 13) parsed under 3 independently chosen read schedules and compared with the one-shot reference model M-preamble; distinct = distinct (event-kind skeleton, event digest) pair; non-trivial = the run took at least one non-default schedule alternative (a second chunk style) or contained noise/fault records",
        assumptions: vec!["buffer size satisfies the documented bound (configured >= longest name+value + 13)", "std's from_utf8_lossy is the reference for lossy name decoding"],
        real: REAL_SYNC.to_vec(), stub: STUB_SYNC.to_vec(),
    });
    v.push(PropDef {
        miri: None,
        id: "C02", level: "exploration", driver: "D1 caller-schedule simulator (sync stream parser behind a real hand-off)",
        scens: vec![s("stream", c02, 120_000, 4_000_000), s("async_delivery", d2::c09, 30_000, 1_000_000)],
        rule: "each run = one seeded request whose preamble is parsed by the real request parser, then a chooser-driven schedule of parse(dest Some/None)/consume_stream/compress/consume_output/set_stream over compliant stream records with noise; every delivered byte compared with M-stream at its offset; async_delivery: the same extraction observed through the async Request (the C09 connection scenario: poll_read into caller buffers of 0..70000 bytes, fill_buf/consume, vectored reads, under short reads, Pending and reply flushes that return Pending); distinct = distinct (skeleton, digest); all runs are non-trivial (each contains schedule alternatives)",
        assumptions: vec!["caller respects the documented preconditions (dest only with an empty stream buffer; advance only after end-of-stream in this scenario)", "every GetValues pair fits the buffer"],
        real: REAL_SYNC.to_vec(), stub: STUB_SYNC.to_vec(),
    });
    v.push(PropDef {
        miri: None,
        id: "C04", level: "exploration", driver: "D1 caller-schedule simulator (both sync parsers)",
        scens: vec![s("preamble_replies", d1req::c04_req, 120_000, 4_000_000), s("stream_replies", c02, 75_000, 2_500_000), s("chain_replies", d1stream::c05, 30_000, 1_000_000)],
        rule: "each run = seeded traffic dense in reply-eliciting records (GetValues bodies of all kinds, unknown types, foreign/unknown-role BeginRequest, aborts during Params) under a seeded chunking with consume_output interleaved; emitted bytes compared for prefix at every step and equality at quiescence with the model's reply list; non-trivial = at least one reply owed",
        assumptions: vec!["unknown-type replies echo the record's request id (the specification fixes 0 for management records only; the repository's tests pin the echo)"],
        real: REAL_SYNC.to_vec(), stub: STUB_SYNC.to_vec(),
    });
    v.push(PropDef {
        miri: None,
        id: "C05", level: "exploration", driver: "D1 caller-schedule simulator (conversion chain)",
        scens: vec![s("chain", d1stream::c05, 120_000, 4_000_000), s("preamble_leftover", d1req::c01, 45_000, 1_500_000), s("async_pipelined", d2::c05_async, 45_000, 1_500_000)],
        rule: "each run = k in 1..4 sequential requests on one wire driven through request parser -> stream parser -> request parser ... with one shared buffer, seeded look-ahead at each hand-off and seeded stop points of the reader; leftovers compared with the unread suffix of the fed bytes, environments and stream contents with per-request models",
        assumptions: vec!["bytes of request i+1 reach the stream parser of request i only while it is held at the final stream's terminator (otherwise the protocol's no-multiplexing reply applies, which C04 covers)"],
        real: REAL_SYNC.to_vec(), stub: STUB_SYNC.to_vec(),
    });
    v.push(PropDef {
        miri: None,
        id: "C06", level: "exploration", driver: "D1 caller-schedule simulator (configurations)",
        scens: vec![s("bound", d1req::c06, 180_000, 5_000_000), s("chain_handoff", d1stream::c05, 45_000, 1_500_000)],
        rule: "each run = one configured buffer size (0..64 dense, residues around 4 KiB/8 KiB/64 KiB/1 MiB, random to 70000) with a preamble whose critical pair has name+value = B-13 (asserted to parse), B-12..B-8 (recorded) or > B (must end in StuckOnInput or parse), under seeded chunking incl. exact-fill reads; after every parse() with done == false the input buffer must be non-empty; effective size checked against max(24, ceil8(size)) on a 20-value slice per run; chain_handoff: the C05 conversion chain, in which request parsers start from an inherited buffer (incl. a completely full one) and the same non-empty-buffer invariant is checked after every parse()",
        assumptions: vec![],
        real: REAL_SYNC.to_vec(), stub: STUB_SYNC.to_vec(),
    });
    v.push(PropDef {
        miri: None,
        id: "C18", level: "exploration", driver: "D1 caller-schedule simulator + exhaustive selection table",
        scens: vec![
            Scen { name: "table", f: d1stream::c18_table, quick: 1, thorough: 1, exhaustive: true },
            s("histories", c18h, 120_000, 4_000_000),
            s("async_selection", d2::c09, 45_000, 1_500_000),
        ],
        rule: "table: all 3 roles x every current selection x every requested selection (27 rows) decided exhaustively in one run; histories: seeded record sequences with every stream type in compliant and non-compliant order, set_stream at arbitrary moments incl. early advance, re-selection and every rejected selection, delivered bytes compared with M-stream; async_selection: the C09 connection scenario, whose handler advances streams through the async Request (set_stream, writeable()), probes every rejected async selection under catch_unwind and compares what each stream delivers with M-stream; distinct = distinct (skeleton, digest)",
        assumptions: vec!["only input-stream record types are requested (requesting a non-stream type trips a debug assertion and is outside the statement)"],
        real: REAL_SYNC.to_vec(), stub: STUB_SYNC.to_vec(),
    });
    v.push(PropDef {
        miri: None,
        id: "C03", level: "exploration", driver: "D1 caller-schedule simulator (both sync parsers, hostile input)",
        scens: vec![s("request_parser", d1c03::c03_req, 180_000, 6_000_000), s("stream_parser", d1c03::c03_stream, 120_000, 4_000_000), s("conversion_chain", d1stream::c05, 60_000, 2_000_000)],
        rule: "each run = one hostile byte string (uniformly random, or valid traffic under 1..3 structured mutations: version/type/length/padding/id flips, truncation, splices, name-value lengths up to 2^31-1, BeginRequest with wrong length / id 0 / unknown role) run under 3 (request parser) or 2 (stream parser) independent schedules with every call under catch_unwind (debug assertions and overflow checks on), repeated calls after the final state and conversions on clones; outcome compared across schedules and with the reference models; conversion_chain: the C05 conversion chain (buffer bookkeeping across request parser -> stream parser -> request parser under seeded schedules, unread remainders compared with the fed bytes)",
        assumptions: vec!["StuckOnInput / a full buffer without progress is accepted only when some Params/GetValues record announces more content than the effective buffer (over-approximation of the largest unit the parser must hold contiguously)"],
        real: REAL_SYNC.to_vec(), stub: STUB_SYNC.to_vec(),
    });
    v.push(PropDef {
        miri: None,
        id: "C20", level: "fault_enumeration", driver: "D4 sink simulator (fault-injecting io::Write)",
        scens: vec![s("sink", d4::c20, 20_000, 600_000)],
        rule: "each run = 9 consecutive status codes (all 900 codes are covered by the batch) x one seeded header list / location; for every response EVERY sink capacity 0..=len+1 is enumerated with a seeded per-call behaviour script (accept all / short write of 1..12 bytes / Interrupted) and both full-sink modes (Ok(0) like &mut [u8], or an error), plus bounded &mut [u8] destinations; distinct = distinct (skeleton, digest); non-trivial = at least one injected sink fault fired",
        assumptions: vec!["http::StatusCode::canonical_reason (http crate) is the reason-phrase reference", "header names equal to 'status' are excluded (documented reserved name, debug assertion)"],
        real: vec!["fastcgi_server::cgi::response::{write_headers, http_headers, simple_redirect}", "std::io::Write::write_all retry semantics", "http crate types"],
        stub: vec!["the destination (Sink: capacity, short writes, Interrupted, full-sink behaviour)"],
    });
    v.push(PropDef {
        miri: None,
        id: "C07", level: "exploration", driver: "D2 deterministic executor + simulated transport + open-loop peer + scripted handlers",
        scens: vec![s("conn", d2::c07, 90_000, 3_000_000), s("reuse_after_abort", d2::c11, 30_000, 1_000_000), s("duplex_handlers", d2::c10, 30_000, 1_000_000)],
        rule: "each run = one connection task Token::run over the simulated transport: 1..4 requests from a compliant open-loop client (request i+1 released after EndRequest i is in the log), noise records, a chooser-driven handler (read all/part/nothing via read or fill_buf, writes, every ExitStatus), reads of 1..n bytes or Pending and writes accepting 1..n bytes or Pending at every call, spurious polls; the decoded transport log and the handler log are compared with M-conn; one run in 16 is a long-lived connection of 5..12 requests; reuse_after_abort: the C11 connection scenario (an AbortRequest is not an I/O error: with keep-conn the next request must be served); distinct = distinct (skeleton, digest); non-trivial = at least one non-default scheduling alternative or transport fault (short read/write, Pending) fired",
        assumptions: vec!["client keeps one request outstanding", "handlers drop their writers before returning and become writeable before writing (documented requirements)"],
        real: REAL_ASYNC.to_vec(), stub: STUB_ASYNC.to_vec(),
    });
    v.push(PropDef {
        miri: None,
        id: "C08", level: "exploration", driver: "D2 deterministic executor in strict wake-only mode + closed-loop peer",
        scens: vec![s("closed_loop", d2::c08, 90_000, 3_000_000), s("closed_loop_duplex", d2::c08_duplex, 45_000, 1_500_000), s("query_then_more_in_one_burst", d2::c08_bursts, 45_000, 1_500_000)],
        rule: "each run = one connection under the closed-loop peer of the quantifier (whole records, delivered in arbitrary pieces; after each GetValues/unknown-type record everything further is withheld until the complete reply is in the transport log) with queries at every placement class, seeded grouping of records into bursts, seeded handler and write-side readiness; invariant at every suspension on the transport read: all replies for complete records already read are in the log; at quiescence: no wait-for cycle; non-trivial = at least one reply owed",
        assumptions: vec!["peer sends whole records and withholds later ones (the quantifier of C08); under this peer a suspension on read cannot be mid-record behind an owed reply"],
        real: REAL_ASYNC.to_vec(), stub: STUB_ASYNC.to_vec(),
    });
    v.push(PropDef {
        miri: None,
        id: "C09", level: "exploration", driver: "D2 deterministic executor + simulated transport; handler explores the read interfaces",
        scens: vec![s("readers", d2::c09, 90_000, 3_000_000), s("duplex_handlers", d2::c10, 30_000, 1_000_000), s("hand_built_request", d2::c09_direct, 30_000, 1_000_000)],
        rule: "each run = one connection whose handler issues a chooser-driven sequence of poll_read(len 0..70000) / poll_fill_buf+consume(k) / set_stream / writeable() calls, samples is_writeable() after every poll and probes output_stream()/set_stream() rejections under catch_unwind, while the transport returns 1..n bytes or Pending and management records arrive mid-stream with the write side accepting 1..n bytes or Pending; bytes received per stream compared with M-stream; distinct = distinct (skeleton, digest)",
        assumptions: vec!["compliant client (streams in role order)"],
        real: REAL_ASYNC.to_vec(), stub: STUB_ASYNC.to_vec(),
    });
    v.push(PropDef {
        miri: Some(("c10", 24, 2048)),
        id: "C10", level: "exploration", driver: "D2 deterministic executor + simulated transport; concurrent writer sub-tasks with their own wakers",
        scens: vec![s("writers", d2::c10, 90_000, 3_000_000)],
        rule: "each run = 1..3 StreamWriters (stdout, stderr, a clone) on separately polled sub-futures plus a reader sub-future that drives reply flushing, write sizes from {0,1,7,8,9,255,256,..3000,65535,65536,70000}, flush between writes, a transport that cuts every (vectored) write anywhere or returns Pending, poll order of sub-futures chosen per step; the log must decode into complete records equal, in completion order, to the successful writes (type, id, payload, padding) with replies as whole records in between",
        assumptions: vec!["a writer is polled to completion of its current write before its buffer changes (documented contract)"],
        real: REAL_ASYNC.to_vec(), stub: STUB_ASYNC.to_vec(),
    });
    v.push(PropDef {
        miri: None,
        id: "C11", level: "exploration", driver: "D1 (sync parsers) + D2 (connection task)",
        scens: vec![s("sync_abort", d1stream::c11_sync, 90_000, 3_000_000), s("async_abort", d2::c11, 90_000, 3_000_000), s("params_abort", d1req::c04_req, 45_000, 1_500_000)],
        rule: "sync: an own-id AbortRequest (optionally with body/padding, optionally preceded by a foreign-id abort) after a random record of the stream phase: parse reports AbortRequest, again on every later call, the header is retained and the next request parser skips it and parses the following request; async: aborts after a random stream-phase record (and aborted attempts during Params) in 1..3-request connections with handlers that read / buffered-read / do not read / are past end-of-stream and propagate or swallow the error; EndRequest records, handler-visible errors and delivered prefixes compared with M-conn",
        assumptions: vec!["after an abort the empty Stdout/Stderr records are optional (the request may never have become writeable); the statement requires exactly one EndRequest"],
        real: REAL_ASYNC.to_vec(), stub: STUB_ASYNC.to_vec(),
    });
    v.push(PropDef {
        miri: None,
        id: "C12", level: "fault_enumeration", driver: "D2 deterministic executor + fault-injecting transport",
        scens: vec![s("faults", d2::c12, 150, 15_000), s("hostile_traffic", d2::c12_hostile, 60_000, 2_000_000)],
        rule: "each run = one seeded scripted connection (1..2 requests, chunking, handler that propagates I/O errors) executed fault-free, then re-executed from the same choice list once per fault point: EOF at EVERY input byte offset 0..N, a read error at EVERY read-call index, a one-shot write error and a one-shot zero-length write at EVERY write-call index (stride > 1 only beyond 250 points per kind); evaluations counts outer scripts, faults_fired counts the inner runs; non-trivial = every run (each contains hundreds of fault points); hostile_traffic: the script's bytes passed through 1..3 structured mutations (version/type/length/padding/id flips, truncation, splices, huge name-value lengths, BeginRequest with wrong length / id 0 / unknown role) or replaced by random bytes, sent without gating and followed by end-of-file: the task must terminate without panic or spinning and its output must be complete well-formed server records",
        assumptions: vec!["handlers propagate I/O errors (the statement's condition for the write clauses)"],
        real: REAL_ASYNC.to_vec(), stub: STUB_ASYNC.to_vec(),
    });
    v.push(PropDef {
        miri: Some(("c14", 64, 4096)),
        id: "C14", level: "exploration", driver: "D2 deterministic executor (connection side); D3 thread scheduler (wait group)",
        scens: vec![s("conn_shutdown", d2::c14_conn, 90_000, 3_000_000), s("waitgroup_threads", d3::c14_wg, 20_000, 1_500_000), s("runner_histories", d2sema::c13, 60_000, 2_000_000), s("multi_conn_shutdown", d2sema::c14_multi, 30_000, 1_000_000)],
        rule: "connection side: one connection task plus the shutdown future as a second task; Runner::shutdown is requested as a scheduler event at a chooser-picked step (before the first read, during a preamble, during the handler, during close, between requests, while idle); checked: started requests complete incl. EndRequest, no handler begins in a poll that starts after the request, idle connections stop without a further transport read, the shutdown future is Ready only after the token is gone and is woken for it; wait group (D3): one real thread polls the shutdown future in a poll-then-wait-for-waker loop while 1..3 real threads drop 1..4 tokens, exactly one thread runs at a time and the next one is chosen by seed at every harness operation, every callback of the poller's Waker (clone/wake/drop, reached from inside AtomicWaker::register and the inner Drop) and the verif-hooks points in WaitGroupFuture::poll and WaitGroupInner::drop; Ready never before every drop has begun, never blocked forever once all drops are done; runner histories: shutdown futures of a runner and its clones polled against the set of live tokens per runner",
        assumptions: vec!["the thread scheduler serialises at operation/hook granularity (sequentially consistent); interleavings inside futures' AtomicWaker and weak-memory effects are not explored"],
        real: REAL_ASYNC.to_vec(), stub: STUB_ASYNC.to_vec(),
    });
    v.push(PropDef {
        miri: Some(("c13", 32, 2048)),
        id: "C13", level: "exploration", driver: "D2 (single-threaded histories; every get_token future has its own waker)",
        scens: vec![s("histories", d2sema::c13, 180_000, 6_000_000)],
        rule: "each run = one seeded history (6..70 operations) over a runner with limit 1..4 and its clones: create a get_token future on any runner, poll one (woken ones preferred half of the time), drop a token unused, cancel a pending request, run a token to completion on a simulated connection (client closes / one request / handler panics and unwinds through Token::run), clone a runner, shut a runner down and poll shutdown futures; after every operation: live tokens <= limit, a free slot with queued requests implies one of them was woken since it last returned Pending, first-poll and woken-poll readiness clauses; distinct = distinct (skeleton, digest)",
        assumptions: vec!["interleavings inside async-lock / event-listener are not explored (operations are atomic at harness granularity); what is decided is how fastcgi-server uses the semaphore"],
        real: REAL_ASYNC.to_vec(), stub: STUB_ASYNC.to_vec(),
    });
    v
}
