//! Seeded traffic generators (all choices through the run's Chooser).

use crate::core::Ctx;
use crate::wire::*;

pub const IDS: [u16; 6] = [1, 2, 255, 256, 65535, 0x1234];
pub const SIZES: [usize; 12] = [0, 1, 2, 7, 8, 9, 15, 16, 127, 128, 129, 255];
pub const BIG_SIZES: [usize; 8] = [16383, 16384, 32767, 32768, 32769, 65528, 65535, 65536];

pub fn gen_id(cx: &mut Ctx) -> u16 {
    if cx.ch.chance(1, 4) {
        (cx.ch.range(1, 65535)) as u16
    } else {
        cx.ch.one_of(&IDS)
    }
}

pub fn gen_other_id(cx: &mut Ctx, own: u16, allow_zero: bool) -> u16 {
    // bounded: a replayed (minimised) choice list may keep returning the same value
    for _ in 0..4 {
        let c = if cx.ch.chance(1, 3) { cx.ch.range(0, 65535) as u16 } else { cx.ch.one_of(&[0u16, 1, 2, 255, 256, 65535, 7]) };
        if c != own && (allow_zero || c != 0) {
            return c;
        }
    }
    [7u16, 9, 11].into_iter().find(|&c| c != own).expect("three candidates")
}

pub fn gen_padding(cx: &mut Ctx) -> u8 {
    match cx.ch.weighted(&[6, 3, 2, 1]) {
        0 => 0,
        1 => cx.ch.one_of(&[1u8, 7, 8]),
        2 => cx.ch.range(0, 16) as u8,
        _ => cx.ch.one_of(&[255u8, 254, 128, 100]),
    }
}

pub fn gen_bytes(cx: &mut Ctx, len: usize) -> Vec<u8> {
    // cheap pseudo-random fill derived from two chooser draws
    let a = cx.ch.byte();
    let b = cx.ch.byte() | 1;
    (0..len).map(|i| a.wrapping_add((i as u8).wrapping_mul(b)) ^ ((i >> 8) as u8)).collect()
}

const KNOWN_NAMES: [&str; 10] = [
    "REQUEST_METHOD", "CONTENT_LENGTH", "HTTP_HOST", "GATEWAY_INTERFACE", "QUERY_STRING",
    "SCRIPT_NAME", "SERVER_PROTOCOL", "HTTP_ACCEPT", "REMOTE_ADDR", "HTTP_X_FORWARDED_PROTO",
];

fn vary_case(cx: &mut Ctx, s: &[u8]) -> Vec<u8> {
    let mode = cx.ch.pick(3);
    s.iter()
        .enumerate()
        .map(|(i, &c)| match mode {
            0 => c.to_ascii_lowercase(),
            1 => c.to_ascii_uppercase(),
            _ => if i % 2 == 0 { c.to_ascii_lowercase() } else { c.to_ascii_uppercase() },
        })
        .collect()
}

pub fn gen_name(cx: &mut Ctx, earlier: &[(Vec<u8>, Vec<u8>)]) -> Vec<u8> {
    match cx.ch.weighted(&[4, 3, 2, 2, 2, 1, 2]) {
        0 => {
            let n = cx.ch.one_of(&KNOWN_NAMES);
            n.as_bytes().to_vec()
        }
        1 => {
            let n = cx.ch.one_of(&KNOWN_NAMES);
            vary_case(cx, n.as_bytes())
        }
        2 if !earlier.is_empty() => {
            // duplicate / case variant of an earlier name
            let i = cx.ch.pick(earlier.len() as u32) as usize;
            let n = earlier[i].0.clone();
            if cx.ch.chance(1, 2) { vary_case(cx, &n) } else { n }
        }
        3 => Vec::new(),
        4 => {
            // non-UTF-8 / truncated multi-byte
            let base: &[&[u8]] = &[b"X\xff", b"\xc3", b"HTTP_\xe2\x82", b"a\x80b", b"\xf0\x9f\x92", b"\xc3\xa9t\xc3\xa9"];
            let mut v = cx.ch.one_of(base).to_vec();
            if cx.ch.chance(1, 2) { v.extend_from_slice(b"_tail"); }
            v
        }
        5 => {
            let len = cx.ch.one_of(&[127usize, 128, 129, 200]);
            let mut v = gen_bytes(cx, len);
            for b in &mut v { *b = b'a' + (*b % 26); }
            v
        }
        _ => {
            let len = cx.ch.range(1, 12);
            let mut v = gen_bytes(cx, len);
            for b in &mut v { *b = b'A' + (*b % 26); }
            if cx.ch.chance(1, 2) { let mut p = b"HTTP_X_".to_vec(); p.extend(v); p } else { v }
        }
    }
}

pub fn gen_value(cx: &mut Ctx, big_ok: bool) -> Vec<u8> {
    let len = match cx.ch.weighted(&[6, 4, 2, if big_ok { 1 } else { 0 }]) {
        0 => cx.ch.range(0, 12),
        1 => cx.ch.one_of(&SIZES),
        2 => cx.ch.range(0, 400),
        _ => cx.ch.one_of(&[1000usize, 4096, 65535, 65536, 70000]),
    };
    gen_bytes(cx, len)
}

/// Name-value pairs whose name+value is at most `max_pair` bytes.
pub fn gen_pairs(cx: &mut Ctx, max_pairs: usize, max_pair: usize, big_ok: bool) -> Vec<(Vec<u8>, Vec<u8>)> {
    // scale: one list in ~300 (where large inputs are allowed) has 300..2000 pairs
    let many = big_ok && cx.ch.chance(1, 300);
    let n = if many { cx.probe("environment_of_300plus_pairs"); cx.ch.range(300, 2000) } else { cx.ch.range(0, max_pairs) };
    let mut pairs: Vec<(Vec<u8>, Vec<u8>)> = Vec::new();
    if many {
        for i in 0..n {
            let name = if cx.ch.chance(1, 10) { gen_name(cx, &pairs) } else { format!("V{}_{}", i, i * 7919 % 1000).into_bytes() };
            let l = cx.ch.range(0, 12);
            let mut val = gen_bytes(cx, l);
            let mut name = name;
            if name.len() > max_pair { name.truncate(max_pair); }
            if name.len() + val.len() > max_pair { val.truncate(max_pair - name.len()); }
            pairs.push((name, val));
        }
        return pairs;
    }
    for _ in 0..n {
        let mut name = gen_name(cx, &pairs);
        let mut val = gen_value(cx, big_ok);
        if name.len() > max_pair { name.truncate(max_pair); }
        if name.len() + val.len() > max_pair { val.truncate(max_pair - name.len()); }
        pairs.push((name, val));
    }
    pairs
}

pub fn encode_pairs(cx: &mut Ctx, pairs: &[(Vec<u8>, Vec<u8>)], allow_long_form: bool) -> (Vec<u8>, Vec<usize>) {
    let mut out = Vec::new();
    let mut ends = Vec::new();
    for (n, v) in pairs {
        if allow_long_form && cx.ch.chance(1, 12) {
            // legal: small lengths in 4-byte form
            if cx.ch.chance(1, 2) { varint4(n.len(), &mut out); } else { varint(n.len(), &mut out); }
            varint4(v.len(), &mut out);
            out.extend_from_slice(n);
            out.extend_from_slice(v);
            cx.probe("long_form_small_len");
        } else {
            nv(n, v, &mut out);
        }
        ends.push(out.len());
    }
    (out, ends)
}

/// Cuts a stream payload into records (content non-empty), biased towards cuts inside
/// length prefixes, tiny records and exact pair ends.
pub fn cut_payload(cx: &mut Ctx, payload: &[u8], pair_ends: &[usize]) -> Vec<Vec<u8>> {
    let mut recs = Vec::new();
    if payload.is_empty() {
        return recs;
    }
    let style = cx.ch.weighted(&[3, 3, 2, 2, 2]);
    let mut p = 0;
    while p < payload.len() {
        let rem = payload.len() - p;
        let mut k = match style {
            0 => rem,                                   // one record (up to 65535)
            1 => cx.ch.range(1, 4),                     // tiny: pairs span 3+ records
            2 => {
                // to next pair end
                pair_ends.iter().find(|&&e| e > p).map_or(rem, |&e| e - p)
            }
            3 => {
                // just inside the next pair's length prefix
                let start = pair_ends.iter().rev().find(|&&e| e <= p).copied().unwrap_or(0);
                let nxt = pair_ends.iter().find(|&&e| e > p).copied().unwrap_or(payload.len());
                if p == start { cx.ch.range(1, 5).min(nxt - p) } else { nxt - p + cx.ch.range(0, 3) }
            }
            _ => cx.ch.range(1, rem.min(300)),
        };
        k = k.clamp(1, rem.min(65535));
        recs.push(payload[p..p + k].to_vec());
        p += k;
    }
    recs
}

#[derive(Clone, Copy, PartialEq, Eq, Debug)]
pub enum Phase {
    /// Request parser idle (before BeginRequest).
    Idle,
    /// Request parser inside the Params stream of `own`.
    Params,
    /// Stream parser active for `own`.
    Stream,
    /// Position where either parser may consume the record: only position-independent noise.
    Either,
}

/// A GetValues body: mix of known / unknown / repeated / non-UTF-8 / value-carrying names,
/// optionally with an incomplete trailing pair. `max_pair`: bound for each pair's encoded size.
pub fn gen_getvalues_body(cx: &mut Ctx, max_pair: usize) -> Vec<u8> {
    let mut body = Vec::new();
    let n = cx.ch.range(0, 5);
    for _ in 0..n {
        let name: Vec<u8> = match cx.ch.weighted(&[5, 2, 1, 1]) {
            0 => cx.ch.one_of(&VAR_NAMES).as_bytes().to_vec(),
            // near misses of the well-known names: none of them may be answered
            1 => cx.ch.one_of(&[&b"FCGI_OTHER"[..], b"fcgi_max_conns", b"", b"FCGI_MAX_CONN", b"FCGI_MAX_CONNSX", b" FCGI_MAX_CONNS", b"FCGI_MAX_REQS ",
                b"FCGI_MAX_CONNS|FCGI_MAX_REQS", b"FCGI_MAX_CONNS | FCGI_MPXS_CONNS", b"0x3", b"0x7", b"0x1", b"7", b"FCGI_MAX_CONNS\0", b"\tFCGI_MPXS_CONNS", b"Fcgi_Max_Reqs"]).to_vec(),
            2 => b"FCGI_\xff\xfe".to_vec(),
            _ => { let l = cx.ch.range(0, 20); gen_bytes(cx, l) }
        };
        let val: Vec<u8> = if cx.ch.chance(1, 4) { let l = cx.ch.range(1, 6); gen_bytes(cx, l) } else { Vec::new() };
        if nv_len(&name, &val) <= max_pair {
            nv(&name, &val, &mut body);
        }
    }
    if cx.ch.chance(1, 6) {
        // incomplete trailing pair: announce more than is there
        let room = max_pair.saturating_sub(3).min(6);
        if room >= 1 {
            body.push(cx.ch.range(2, 60) as u8);
            body.push(0);
            let l = cx.ch.range(0, room.min(1 + 0));
            body.extend(gen_bytes(cx, l));
            cx.probe("getvalues_incomplete_tail");
        }
    }
    body
}

/// Scale: a GetValues body with hundreds of tiny pairs (unknown names) and well-known names behind the 256th pair
/// (and sometimes among the first ones). A few KiB; meant to be examined whole by one parse call.
pub fn gen_getvalues_many(cx: &mut Ctx) -> Vec<u8> {
    let mut body = Vec::new();
    let n = cx.ch.one_of(&[257usize, 258, 300, 513, 700, 1200]) + cx.ch.range(0, 3);
    let early = cx.ch.chance(1, 3);
    for i in 0..n {
        if early && i == 3 { nv(cx.ch.one_of(&VAR_NAMES).as_bytes(), b"", &mut body); }
        let l = 1 + (i % 3);
        let name: Vec<u8> = (0..l).map(|j| b'a' + ((i / 3 + j * 7) % 26) as u8).collect();
        let val: &[u8] = if i % 11 == 0 { b"1" } else { b"" };
        nv(&name, val, &mut body);
    }
    let k = cx.ch.range(1, 3);
    for _ in 0..k { nv(cx.ch.one_of(&VAR_NAMES).as_bytes(), b"", &mut body); }
    cx.probe("getvalues_over_256_pairs");
    body
}

/// One noise record for the given phase. Returns the record; the models decide what it elicits.
pub fn gen_noise(cx: &mut Ctx, phase: Phase, own: u16, max_pair: usize) -> Rec {
    let mut r = gen_noise_inner(cx, phase, own, max_pair);
    // a skipped record near the 16-bit limit: let content + padding exceed 65535 in half of the cases
    if r.content.len() >= 65281 && cx.ch.chance(1, 2) {
        r.padding = cx.ch.one_of(&[255u8, 254, 255]);
        cx.probe("noise_huge_record_over_64k_total");
    }
    r
}

fn gen_noise_inner(cx: &mut Ctx, phase: Phase, own: u16, max_pair: usize) -> Rec {
    let pad = gen_padding(cx);
    let allow_huge = matches!(phase, Phase::Stream | Phase::Params | Phase::Idle);
    let small = |cx: &mut Ctx| -> Vec<u8> {
        // rarely a skipped record near the 16-bit limit (content + padding beyond 65535)
        let l = match cx.ch.weighted(&[160, 120, 40, if allow_huge { 1 } else { 0 }]) {
            0 => 0,
            1 => cx.ch.range(1, 24),
            2 => cx.ch.range(25, 300),
            _ => { cx.probe("noise_huge_record"); cx.ch.one_of(&[65281usize, 65300, 65535]) }
        };
        gen_bytes(cx, l)
    };
    let kind = match phase {
        Phase::Idle => cx.ch.weighted(&[4, 3, 2, 0, 0, 2, 1, 1]),
        Phase::Params => cx.ch.weighted(&[4, 3, 2, 2, 2, 0, 1, 1]),
        Phase::Stream => cx.ch.weighted(&[4, 3, 2, 2, 2, 0, 1, 1]),
        // foreign-id stream/params/abort records are skipped by whichever parser consumes them: position independent
        Phase::Either => cx.ch.weighted(&[4, 3, 1, 2, 0, 0, 0, 1]),
    };
    match kind {
        0 => {
            cx.probe("noise_getvalues");
            Rec::new(GETVALUES, 0, gen_getvalues_body(cx, max_pair), pad)
        }
        1 => {
            cx.probe("noise_unknown_type");
            let mut t = 0u8;
            for _ in 0..4 {
                t = if cx.ch.chance(1, 2) { cx.ch.one_of(&[0u8, 12, 13, 127, 128, 255, 0xa7]) } else { cx.ch.byte() };
                if !is_known_type(t) { break; }
                t = 0xa7;
            }
            let id = if cx.ch.chance(1, 2) { 0 } else if cx.ch.chance(1, 2) { own } else { gen_other_id(cx, own, true) };
            Rec::new(t, id, small(cx), pad)
        }
        2 => {
            // records that are silently skipped everywhere
            cx.probe("noise_skipped");
            let t = match phase {
                Phase::Either => cx.ch.one_of(&[END, STDOUT, STDERR, GETVALUESRESULT, UNKNOWN]),
                _ => cx.ch.one_of(&[END, STDOUT, STDERR, GETVALUESRESULT, UNKNOWN, GETVALUES]),
            };
            let id = if t == GETVALUES { gen_other_id(cx, 0, false) } else if cx.ch.chance(1, 2) { own } else { gen_other_id(cx, own, true) };
            Rec::new(t, id, small(cx), pad)
        }
        3 => {
            // foreign-id stream / params / abort records (skipped)
            cx.probe("noise_foreign_id");
            let t = cx.ch.one_of(&[PARAMS, STDIN, DATA, ABORT]);
            Rec::new(t, gen_other_id(cx, own, true), small(cx), pad)
        }
        4 => {
            match phase {
                Phase::Params => {
                    if cx.ch.chance(1, 2) {
                        cx.probe("noise_dup_begin");
                        Rec::new(BEGIN, own, begin_body(cx.ch.range(1, 3) as u16, cx.ch.byte()), pad)
                    } else {
                        cx.probe("noise_foreign_begin");
                        let body = if cx.ch.chance(1, 4) { small(cx) } else { begin_body(cx.ch.range(0, 5) as u16, cx.ch.byte()) };
                        Rec::new(BEGIN, gen_other_id(cx, own, true), body, pad)
                    }
                }
                _ => {
                    match cx.ch.pick(3) {
                        0 => { cx.probe("noise_dup_begin"); Rec::new(BEGIN, own, begin_body(cx.ch.range(1, 3) as u16, cx.ch.byte()), pad) }
                        1 => {
                            cx.probe("noise_foreign_begin");
                            let body = if cx.ch.chance(1, 4) { small(cx) } else { begin_body(cx.ch.range(0, 5) as u16, cx.ch.byte()) };
                            Rec::new(BEGIN, gen_other_id(cx, own, true), body, pad)
                        }
                        _ => { cx.probe("noise_stale_params"); Rec::new(PARAMS, own, small(cx), pad) }
                    }
                }
            }
        }
        5 => {
            // Idle only: BeginRequest with unknown role (any id incl. 0) -> EndRequest{UnknownRole}
            cx.probe("noise_unknown_role");
            let role = cx.ch.one_of(&[0u16, 4, 5, 255, 256, 65535]);
            let id = if cx.ch.chance(1, 3) { 0 } else { gen_id(cx) };
            Rec::new(BEGIN, id, begin_body(role, cx.ch.byte()), pad)
        }
        6 => {
            // own-id records that are out of place for the phase (skipped)
            cx.probe("noise_own_misplaced");
            match phase {
                Phase::Idle => Rec::new(cx.ch.one_of(&[PARAMS, STDIN, DATA, ABORT]), gen_id(cx), small(cx), pad),
                Phase::Params => Rec::new(cx.ch.one_of(&[STDIN, DATA]), own, small(cx), pad),
                _ => Rec::new(cx.ch.one_of(&[END, STDOUT]), own, small(cx), pad),
            }
        }
        _ => {
            // GetValues with empty body: no reply owed
            cx.probe("noise_getvalues_empty");
            Rec::new(GETVALUES, 0, Vec::new(), pad)
        }
    }
}

/// Clients may put anything into the reserved header byte and the padding bytes: do so in some runs.
pub fn junk_reserved(cx: &mut Ctx, recs: &mut [Rec]) {
    if !cx.ch.chance(1, 4) { return; }
    cx.probe("nonzero_reserved_and_padding_bytes");
    let a = cx.ch.byte() | 1;
    for (i, r) in recs.iter_mut().enumerate() {
        r.reserved = a.wrapping_mul((i as u8).wrapping_add(1));
        r.pad_fill = a.rotate_left(3) ^ (i as u8) | 0x80;
        // reserved bytes of a BeginRequest body
        if r.rtype == BEGIN && r.content.len() == 8 { for b in &mut r.content[3..8] { *b = a ^ 0x5a; } }
    }
}

pub fn gen_role(cx: &mut Ctx) -> u16 {
    cx.ch.one_of(&[RESPONDER, FILTER, AUTHORIZER])
}

/// Buffer-size knob: (configured size, effective size).
pub fn effective(size: usize) -> usize {
    if size <= 24 { 24 } else { (size + 7) & !7 }
}
