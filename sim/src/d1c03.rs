//! C03: totality and chunking-invariance of both sync parsers on hostile input.

use crate::core::*;
use crate::d1req::*;
use crate::d1stream::*;
use crate::gen::*;
use crate::model::{self, PreOutcome};
use crate::wire::*;
use crate::{vcheck, vfail};
use fastcgi_server::parser::{request, Error as PErr};

pub const C03_FAULTS: &[&str] = &[
    "mut_version", "mut_type", "mut_length", "mut_padding", "mut_truncate", "mut_splice", "mut_huge_nv_len",
    "mut_begin_len", "mut_begin_id0", "mut_begin_role", "mut_random_bytes", "mut_id",
];
pub const C03_PROBES: &[&str] = &[
    "outcome_ok", "outcome_fatal", "outcome_incomplete", "outcome_stuck", "calls_after_final", "conversion_nonfinal",
    "stream_error_sticky", "stream_stuck_full_buffer", "conversion_probe_ok", "conversion_probe_interrupted", "hostile_stream_early_advance",
];

/// Applies 1..3 structured mutations to a valid wire (record boundaries known).
pub fn mutate(cx: &mut Ctx, recs: &[Rec]) -> Vec<u8> {
    let mut recs: Vec<Rec> = recs.to_vec();
    let mut wire: Option<Vec<u8>> = None;
    let n = 1 + cx.ch.pick(3);
    for _ in 0..n {
        if recs.is_empty() { break; }
        let i = cx.ch.pick(recs.len() as u32) as usize;
        match cx.ch.weighted(&[2, 3, 3, 2, 2, 2, 3, 2, 2, 2, 2]) {
            0 => { recs[i].version = cx.ch.one_of(&[0u8, 2, 255, 0xc5]); cx.fault("mut_version"); }
            1 => { recs[i].rtype = cx.ch.byte(); cx.fault("mut_type"); }
            2 => {
                // content length disagrees with what follows: re-encode by hand
                let mut w = encode_all(&recs[..i]);
                let mut r = recs[i].bytes();
                let nl = cx.ch.one_of(&[0u16, 1, 7, 8, 9, 255, 256, 65535]);
                r[4..6].copy_from_slice(&nl.to_be_bytes());
                w.extend(r);
                w.extend(encode_all(&recs[i + 1..]));
                cx.fault("mut_length");
                wire = Some(w);
                break;
            }
            3 => { recs[i].padding = cx.ch.byte(); cx.fault("mut_padding"); }
            4 => {
                let w = encode_all(&recs);
                let cut = cx.ch.range(0, w.len());
                cx.fault("mut_truncate");
                wire = Some(w[..cut].to_vec());
                break;
            }
            5 => {
                let j = cx.ch.pick(recs.len() as u32) as usize;
                let r = recs[j].clone();
                recs.insert(i, r);
                cx.fault("mut_splice");
            }
            6 => {
                // a name-value length prefix announcing up to 2^31-1 bytes
                if recs[i].rtype == PARAMS || recs[i].rtype == GETVALUES {
                    let big = cx.ch.one_of(&[0x7fff_ffffu32, 0x7fff_fffe, 0x0001_0000, 0x0000_ffff, 128]);
                    let mut c = Vec::new();
                    if cx.ch.chance(1, 2) { c.push(3); } else { c.extend_from_slice(&(big | 0x8000_0000).to_be_bytes()); }
                    c.extend_from_slice(&(big | 0x8000_0000).to_be_bytes());
                    c.extend_from_slice(b"abc");
                    let keep = cx.ch.range(0, recs[i].content.len().min(40));
                    let mut nc = recs[i].content[..keep].to_vec();
                    nc.extend(c);
                    recs[i].content = nc;
                    cx.fault("mut_huge_nv_len");
                }
            }
            7 => {
                if let Some(b) = recs.iter_mut().find(|r| r.rtype == BEGIN) {
                    let l = cx.ch.one_of(&[0usize, 7, 9, 16]);
                    b.content.resize(l, 0);
                    cx.fault("mut_begin_len");
                }
            }
            8 => {
                if let Some(b) = recs.iter_mut().find(|r| r.rtype == BEGIN) { b.id = 0; cx.fault("mut_begin_id0"); }
            }
            9 => {
                if let Some(b) = recs.iter_mut().find(|r| r.rtype == BEGIN && r.content.len() >= 2) {
                    let role = cx.ch.one_of(&[0u16, 4, 256, 65535]);
                    b.content[..2].copy_from_slice(&role.to_be_bytes());
                    cx.fault("mut_begin_role");
                }
            }
            _ => { recs[i].id = cx.ch.one_of(&[0u16, 1, 65535, 77]); cx.fault("mut_id"); }
        }
    }
    wire.unwrap_or_else(|| encode_all(&recs))
}

fn max_nv_record(wire: &[u8]) -> usize {
    // over-approximation of the largest contiguous unit a parser may need: the largest announced
    // content length of any Params / GetValues record found by walking headers from the start
    let mut p = 0;
    let mut m = 0;
    while wire.len() >= p + 8 {
        let t = wire[p + 1];
        let cl = usize::from(u16::from_be_bytes([wire[p + 4], wire[p + 5]]));
        let pad = usize::from(wire[p + 6]);
        if t == PARAMS || t == GETVALUES { m = m.max(cl); }
        if wire[p] != 1 { break; }
        p += 8 + cl + pad;
    }
    m
}

/// One request-parser run over arbitrary bytes; returns a chunking-independent outcome summary.
fn hostile_req_run(cx: &mut Ctx, wire: &[u8], bufsize: usize, mc: usize, style: Style) -> Result<String, Violation> {
    let cfg = config(bufsize, mc);
    let mut parser = request::Parser::new(&cfg);
    let eff = effective(bufsize);
    let m = model::preamble(wire, 0, mc);
    let exp_out = model::concat_replies(&m.replies);
    let mut pos = 0;
    let opts = DriveOpts { style, cap: wire.len(), check_nonempty: true, replies: Some(exp_out.clone()), done_by: None };
    let d = drive_request(cx, &mut parser, wire, &mut pos, &opts, "c03_output")?;
    // conversions at this point on clones
    let c1 = parser.clone();
    let c2 = parser.clone();
    let r1 = guard(move || c1.into_request()).map_err(|p| Violation::new("panic", "into_request", p))?;
    let r2 = guard(move || c2.into_stream_parser().map(|_| ())).map_err(|p| Violation::new("panic", "into_stream_parser", p))?;
    vcheck!(r1.is_ok() == r2.is_ok(), "c03_conversion", "into_request and into_stream_parser disagree");
    if !d.done {
        cx.probe("conversion_nonfinal");
        vcheck!(matches!(r1, Err(PErr::Interrupted)) && matches!(r2, Err(PErr::Interrupted)), "c03_conversion", "conversion at a non-final state did not return Interrupted");
        vcheck!(matches!(m.outcome, PreOutcome::Incomplete), "c03_outcome", "all {} bytes fed, parser not done, but the model says {:?}", wire.len(), short_outcome(&m.outcome));
        vcheck!(d.output == exp_out, "c03_output", "emitted {} expected {}", hex(&d.output), hex(&exp_out));
        cx.probe("outcome_incomplete");
        return Ok(format!("incomplete out={}", hex(&d.output)));
    }
    // final state: repeated calls must not change anything and must not emit output
    let summary = match &r1 {
        Ok((req, left)) => {
            let PreOutcome::Done(info) = &m.outcome else {
                vfail!("c03_outcome", "", "parser produced a request but the model says {:?}", short_outcome(&m.outcome));
            };
            check_request(cx, req, info, "c03_request")?;
            vcheck!(left[..] == wire[info.end..d.fed], "c03_remainder", "unread remainder {} != {}", hex(left), hex(&wire[info.end..d.fed]));
            vcheck!(d.output == exp_out, "c03_output", "emitted {} expected {}", hex(&d.output), hex(&exp_out));
            cx.probe("outcome_ok");
            format!("ok id={} env={} out={}", info.id, info.env.len(), hex(&d.output))
        }
        Err(PErr::StuckOnInput) => {
            vcheck!(max_nv_record(wire) > eff, "c03_spurious_stuck", "StuckOnInput with a {eff}-byte buffer although no Params/GetValues record exceeds it");
            vcheck!(exp_out.starts_with(&d.output), "c03_output", "emitted {} not a prefix of {}", hex(&d.output), hex(&exp_out));
            cx.probe("outcome_stuck");
            format!("stuck out={}", hex(&d.output))
        }
        Err(e) => {
            let PreOutcome::Fatal { err, .. } = &m.outcome else {
                vfail!("c03_outcome", "", "parser reports {} but the model says {:?}", err_name(e), short_outcome(&m.outcome));
            };
            vcheck!(err_name(e) == fatal_name(err), "c03_fatal_kind", "parser reports {}, model {}", err_name(e), fatal_name(err));
            vcheck!(d.output == exp_out, "c03_output", "emitted {} expected {}", hex(&d.output), hex(&exp_out));
            cx.probe("outcome_fatal");
            format!("fatal {} out={}", err_name(e), hex(&d.output))
        }
    };
    let first_err = r1.as_ref().err().map(err_name);
    for round in 0..3 {
        let space = parser.input_buffer().len();
        let k = if round == 0 { 0 } else { cx.ch.range(0, space.min(wire.len() - pos).min(9)) };
        parser.input_buffer()[..k].copy_from_slice(&wire[pos..pos + k]);
        pos += k;
        let p = &mut parser;
        let (done, out) = guard(|| { let y = p.parse(k); (y.done, y.output.len()) }).map_err(|p| Violation::new("panic", "request::Parser::parse", format!("call after final state: {p}")))?;
        cx.probe("calls_after_final");
        vcheck!(done, "c03_final_not_sticky", "parse() after a final state reported done == false");
        vcheck!(out == 0, "c03_output_after_final", "parse() after a final state emitted {out} bytes");
        let c = parser.clone();
        let again = guard(move || c.into_request()).map_err(|p| Violation::new("panic", "into_request", p))?;
        match (&first_err, again) {
            (Some(e0), Err(e1)) => vcheck!(*e0 == err_name(&e1), "c03_error_not_sticky", "error changed from {e0} to {}", err_name(&e1)),
            (None, Ok((req, left))) => {
                if let PreOutcome::Done(info) = &m.outcome {
                    vcheck!(req.request_id.get() == info.id && req.env_len() == info.env.len(), "c03_final_not_sticky", "request changed after done");
                    vcheck!(left[..] == wire[info.end..pos], "c03_remainder", "remainder after extra input {} != {}", hex(&left), hex(&wire[info.end..pos]));
                }
            }
            (a, b) => vfail!("c03_final_not_sticky", "", "final result flipped: first {:?}, later ok={}", a, b.is_ok()),
        }
    }
    Ok(summary)
}

fn short_outcome(o: &PreOutcome) -> String {
    match o {
        PreOutcome::Done(i) => format!("Done(id={}, end={})", i.id, i.end),
        PreOutcome::Fatal { err, at } => format!("Fatal({}, at {at})", fatal_name(err)),
        PreOutcome::Incomplete => "Incomplete".into(),
    }
}

pub fn c03_req(cx: &mut Ctx) -> VResult {
    cx.declare(C03_FAULTS, C03_PROBES);
    let mc = 7;
    let (wire, bufsize) = if cx.ch.chance(1, 5) {
        let l = cx.ch.range(0, 300);
        cx.fault("mut_random_bytes");
        let mut w: Vec<u8> = (0..l).map(|_| cx.ch.byte()).collect();
        // bias the first bytes towards plausible headers so that deeper states are reached
        if l >= 2 && cx.ch.chance(1, 2) { w[0] = 1; w[1] = cx.ch.range(0, 12) as u8; }
        (w, cx.ch.one_of(&[0usize, 24, 32, 64, 256, 8192]))
    } else {
        let o = PreOpts { allow_abort: cx.ch.chance(1, 3), noise_num: cx.ch.pick(4), big_ok: false, max_pairs: 5, force_buf: None };
        let case = gen_precase(cx, &o);
        let w = mutate(cx, &case.recs);
        let b = if cx.ch.chance(1, 2) { case.bufsize } else { cx.ch.one_of(&[0usize, 24, 40, 100, 8192]) };
        (w, b)
    };
    if cx.want_sample {
        cx.sample = Some(format!("bufsize={bufsize} wire={}", hex(&wire)));
    }
    cx.nontrivial = true;
    let s0 = pick_style(cx);
    let a = hostile_req_run(cx, &wire, bufsize, mc, s0)?;
    for _ in 0..2 {
        let s = pick_style(cx);
        let b = hostile_req_run(cx, &wire, bufsize, mc, s)?;
        vcheck!(a == b, "c03_schedule_dependence", "outcome depends on chunking: [{s0:?}] {a} vs [{s:?}] {b}");
    }
    Ok(())
}

/// Stream parser on a valid preamble followed by hostile stream-phase bytes.
pub fn c03_stream(cx: &mut Ctx) -> VResult {
    cx.declare(C03_FAULTS, C03_PROBES);
    let mc = 3;
    let noise = cx.ch.pick(4);
    let rc = gen_request(cx, noise, 40, 24, true, false, Phase::Stream);
    let split = rc.recs.iter().position(|r| r.rtype == PARAMS && r.id == rc.id && r.content.is_empty()).expect("params end") + 1;
    let mut wire = encode_all(&rc.recs[..split]);
    let pre_len = wire.len();
    let tail = if cx.ch.chance(1, 6) {
        cx.fault("mut_random_bytes");
        let l = cx.ch.range(0, 200);
        let mut w: Vec<u8> = (0..l).map(|_| cx.ch.byte()).collect();
        if l >= 4 && cx.ch.chance(2, 3) { w[0] = 1; w[1] = cx.ch.range(0, 12) as u8; w[2..4].copy_from_slice(&rc.id.to_be_bytes()); }
        w
    } else {
        // include an own-id abort sometimes, then mutate
        let mut srecs = rc.recs[split..].to_vec();
        if cx.ch.chance(1, 5) && !srecs.is_empty() {
            let at = cx.ch.range(0, srecs.len());
            srecs.insert(at, Rec::new(ABORT, rc.id, Vec::new(), 0));
        }
        mutate(cx, &srecs)
    };
    wire.extend_from_slice(&tail);
    let need = rc.recs[..split].iter().filter(|r| r.rtype == PARAMS || r.rtype == GETVALUES).map(|r| r.content.len()).max().unwrap_or(0) + 13;
    let bufsize = pick_small_bufsize(cx, need);
    let eff = effective(bufsize);
    let pm = model::preamble(&wire, 0, mc);
    let PreOutcome::Done(info) = &pm.outcome else { panic!("harness: c03_stream preamble incomplete") };
    assert!(info.end == pre_len, "harness: preamble end");
    let sm = model::stream(&wire, info.end, info.id, info.role, mc);
    if cx.want_sample {
        cx.sample = Some(format!("role={} id={} bufsize={bufsize} stream-phase bytes={}", info.role, info.id, hex(&tail)));
    }
    cx.nontrivial = true;
    let stuck_possible = max_nv_record(&wire[pre_len..]) > eff.saturating_sub(8).min(eff) || max_nv_record(&wire[pre_len..]) > eff;
    let mut summaries = Vec::new();
    // how far each stream is read before the caller moves on (the same in both rounds): to its end, part of it
    // (the switch then usually lands in the middle of a record), or not at all
    let policies: Vec<ReadPolicy> = (0..role_streams(info.role).len()).map(|_| match cx.ch.weighted(&[4, 1, 1]) { 0 => ReadPolicy::Full, 1 => ReadPolicy::Partial, _ => ReadPolicy::Skip }).collect();
    let all_full = policies.iter().all(|p| *p == ReadPolicy::Full);
    if !all_full { cx.probe("hostile_stream_early_advance"); }
    for _round in 0..2 {
        let cfg = config(bufsize, mc);
        let style = calm(pick_style(cx), wire.len());
        let mut pos = 0;
        let rp = request::Parser::new(&cfg);
        // feed exactly the preamble first so that every round starts the stream parser at the same byte
        let (sp, _) = handoff(cx, &cfg, rp, &wire, &mut pos, wire.len(), style, &model::concat_replies(&pm.replies))?;
        let mut d = SDriver::new(sp, &wire, pos, wire.len(), &sm, info.role, style);
        d.allow_stuck = true;
        let n = d.streams.len();
        let mut delivered = Vec::new();
        for s in 0..n {
            if d.active != Some(s) { d.select(cx, Some(s))?; }
            d.read_phase(cx, policies[s], "c03_stream_prefix")?;
            // drain what is buffered
            let sb = d.p.stream_buffer().len();
            d.consume(cx, sb);
            delivered.push(d.taken[s]);
            if d.failed.is_some() || d.stuck { break; }
        }
        if d.failed.is_none() && !d.stuck {
            if n > 0 { d.select(cx, None)?; }
            d.run_to_quiescence(cx, "c03_stream_prefix")?;
        }
        if d.stuck {
            vcheck!(stuck_possible, "c03_spurious_stuck", "stream parser cannot make progress with a full {eff}-byte buffer although no GetValues record exceeds it");
            cx.probe("stream_stuck_full_buffer");
        } else {
            d.final_checks(cx, "c03_stream_prefix")?;
        }
        if d.failed.is_some() {
            for _ in 0..3 { d.feed_parse(cx, None, "c03_stream_prefix")?; }
            cx.probe("stream_error_sticky");
            let ob = d.total_out_pub();
            // no further output after the error
            d.feed_parse(cx, None, "c03_stream_prefix")?;
            vcheck!(d.total_out_pub() == ob, "c03_output_after_final", "output grew after a fatal error");
        }
        // conversions at non-boundary states return Interrupted (checked in final_checks when not stuck)
        if d.failed.is_some() || !all_full { delivered.clear(); }
        summaries.push(format!("failed={:?} stuck={} delivered={:?} out={}", d.failed, d.stuck, delivered, hex(&d.total_out_pub())));
    }
    if !summaries[0].contains("stuck=true") && !summaries[1].contains("stuck=true") {
        vcheck!(summaries[0] == summaries[1], "c03_schedule_dependence", "stream outcome depends on the schedule: {} vs {}", summaries[0], summaries[1]);
    }
    Ok(())
}
