//! D5: Miri's seeded scheduler as a second thread simulator for C13 / C14.
//!
//! `cargo +nightly miri run` interprets a small program (/verif/miri) that uses the real
//! library on real `std::thread`s; `-Zmiri-many-seeds=a..b` runs one exactly repeatable
//! schedule per seed (preemption points are drawn from Miri's PRNG). Unlike D3 it preempts
//! anywhere - also inside event-listener / async-lock, under their internal locks.

use crate::json::J;
use std::path::Path;
use std::process::Command;
use std::time::Instant;

pub struct MiriOut {
    pub seeds: u64,
    pub rates: Vec<&'static str>,
    pub wall_s: f64,
    /// (seed, preemption rate, message)
    pub failing: Option<(u64, String, String)>,
    pub skipped: Option<String>,
}

fn miri_cmd(verif_dir: &Path, scenario: &str, flags: &str) -> Command {
    let mut c = Command::new("cargo");
    c.arg("+nightly").arg("miri").arg("run").arg("--offline").arg("--quiet")
        .arg("--manifest-path").arg(verif_dir.join("miri").join("Cargo.toml"))
        .arg("--").arg(scenario);
    c.env("MIRIFLAGS", flags);
    c.env("CARGO_NET_OFFLINE", "true");
    c
}

pub fn run_single(verif_dir: &Path, scenario: &str, seed: u64, rate: &str) -> (bool, String) {
    let flags = format!("-Zmiri-seed={seed} -Zmiri-preemption-rate={rate}");
    match miri_cmd(verif_dir, scenario, &flags).output() {
        Ok(o) => {
            let text = format!("{}{}", String::from_utf8_lossy(&o.stdout), String::from_utf8_lossy(&o.stderr));
            let msg = text.lines().find(|l| l.contains("MIRI-VIOLATION") || l.contains("Undefined Behavior") || l.contains("panicked")).unwrap_or("").to_string();
            (!o.status.success(), msg)
        }
        Err(e) => (false, format!("cannot run miri: {e}")),
    }
}

pub fn run(verif_dir: &Path, scenario: &str, seeds: u64, seed_base: u64) -> MiriOut {
    let t0 = Instant::now();
    let rates: Vec<&'static str> = vec!["0.05", "0.2"];
    let mut out = MiriOut { seeds: 0, rates: rates.clone(), wall_s: 0.0, failing: None, skipped: None };
    if !verif_dir.join("miri").join("Cargo.toml").exists() {
        out.skipped = Some("miri crate missing".into());
        return out;
    }
    let per = (seeds / rates.len() as u64).max(1);
    for (ri, rate) in rates.iter().enumerate() {
        let from = (seed_base % 1_000_000) + ri as u64 * per;
        let flags = format!("-Zmiri-many-seeds={}..{} -Zmiri-preemption-rate={rate}", from, from + per);
        let res = miri_cmd(verif_dir, scenario, &flags).output();
        let o = match res {
            Ok(o) => o,
            Err(e) => { out.skipped = Some(format!("cannot start cargo miri: {e}")); break; }
        };
        let text = format!("{}{}", String::from_utf8_lossy(&o.stdout), String::from_utf8_lossy(&o.stderr));
        if text.contains("is not installed") || text.contains("no such command") || text.contains("toolchain 'nightly") && text.contains("not installed") {
            out.skipped = Some("miri / nightly toolchain not available".into());
            break;
        }
        if text.contains("could not compile") || text.contains("error[E") {
            out.skipped = Some(format!("miri build failed: {}", text.lines().filter(|l| l.contains("error")).take(3).collect::<Vec<_>>().join(" | ")));
            break;
        }
        out.seeds += per;
        if !o.status.success() {
            // find the smallest failing seed and confirm it on its own (clean message, replayable)
            let mut failing: Vec<u64> = text.lines().filter_map(|l| l.trim().strip_prefix("FAILING SEED:").and_then(|s| s.trim().parse().ok())).collect();
            failing.sort();
            let seed = failing.first().copied().unwrap_or(from);
            let (fails, msg) = run_single(verif_dir, scenario, seed, rate);
            let msg = if fails { msg } else { format!("seed {seed} failed in the batch but not alone (output: {})", text.lines().rev().take(3).collect::<Vec<_>>().join(" | ")) };
            out.failing = Some((seed, (*rate).to_string(), msg));
            break;
        }
    }
    out.wall_s = t0.elapsed().as_secs_f64();
    out
}

pub fn to_json(scenario: &str, m: &MiriOut) -> J {
    let mut j = J::obj()
        .set("engine", J::s("Miri interpreter with seeded scheduler (-Zmiri-many-seeds), real std threads, preemption anywhere"))
        .set("scenario", J::s(scenario))
        .set("seeds_run", J::i(m.seeds))
        .set("preemption_rates", J::Arr(m.rates.iter().map(|r| J::s(r)).collect()))
        .set("wall_s", J::Num(m.wall_s));
    if let Some(s) = &m.skipped { j = j.set("skipped", J::s(s)); }
    if let Some((seed, rate, msg)) = &m.failing { j = j.set("failing_seed", J::i(*seed)).set("failing_rate", J::s(rate)).set("message", J::s(msg)); }
    j
}
