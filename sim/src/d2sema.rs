//! C13: connection-token limit and wake-ups, as histories over a runner and its clones
//! (single-threaded, every future polled explicitly with its own waker).

use crate::core::*;
use crate::d1req::config;
use crate::d2::{make_handler, HandlerMode};
use crate::exec::*;
use crate::wire::*;
use crate::{vcheck, vfail};
use fastcgi_server::async_io::{Runner, Token};
use futures_util::io::AsyncRead;
use std::future::Future;
use std::pin::Pin;
use std::sync::{Arc, Mutex};
use std::task::{Context, Poll, Waker};

struct Pend {
    // `fut` borrows the runner kept alive by `_keep` (declared after it, so dropped after it)
    fut: Pin<Box<dyn Future<Output = Token>>>,
    _keep: Arc<Runner>,
    flag: Arc<WakeFlag>,
    polled: bool,
    wakes_at_pending: u64,
    runner: usize,
    id: usize,
}

struct Shut {
    fut: Pin<Box<dyn Future<Output = ()>>>,
    flag: Arc<WakeFlag>,
    runner: usize,
    done: bool,
    wakes_at_pending: u64,
    polled: bool,
}

/// A connection whose task is advanced a few scheduler steps at a time, interleaved with runner operations.
struct Conn {
    ex: Exec,
    shared: Shared,
    runner: usize,
    mode: u32,
}

fn start_conn(cx: &mut Ctx, token: Token, mode: u32, peer_stays: bool) -> Conn {
    // mode 0: client closes at once; 1: one request (keep-conn bit chosen); 2: handler panics
    let mut wire = Vec::new();
    if mode > 0 {
        let role = cx.ch.one_of(&[RESPONDER, FILTER, AUTHORIZER]);
        let keep = if peer_stays { 1 } else { cx.ch.pick(2) as u8 };
        begin(1, role, keep, 0).encode(&mut wire);
        Rec::new(PARAMS, 1, Vec::new(), 0).encode(&mut wire);
        for &s in role_streams(role) {
            if cx.ch.chance(1, 2) { Rec::new(s, 1, vec![7u8; 5], 3).encode(&mut wire); }
            Rec::new(s, 1, Vec::new(), 0).encode(&mut wire);
        }
    }
    let knobs = Knobs { read_style: cx.ch.pick(4), write_style: cx.ch.pick(4), read_pending: cx.ch.one_of(&[0u32, 4, 8]), write_pending: cx.ch.one_of(&[0u32, 6, 12]), deliver_style: cx.ch.pick(3), spurious_polls: 0, fresh_wakers: cx.ch.chance(1, 2), vectored_first_only: cx.ch.chance(1, 4) };
    // the connection's own choice stream is seeded from the history's chooser (one draw), so the whole run stays a function of the choice list
    let sub_seed = (u64::from(cx.ch.pick(1 << 30)) << 16) ^ 0xC13;
    let mut sub = Ctx::new(Chooser::record(sub_seed), false);
    sub.ch.keep_log = false;
    // peer sends the request in up to two bursts
    let cut = if wire.is_empty() { 0 } else { cx.ch.range(0, wire.len()) };
    let segs = vec![Seg { end: cut, gate: Gate::Open }, Seg { end: wire.len(), gate: Gate::Open }];
    let mut world = World::new(sub, knobs, wire, segs);
    world.close_when_done = !peer_stays;
    let shared: Shared = Arc::new(Mutex::new(world));
    let mut ex = Exec::new(shared.clone());
    if mode == 2 {
        let handler = panic_handler(shared.clone());
        ex.tasks.push(Task::new("conn", Box::pin(token.run(SimRead(shared.clone()), SimWrite(shared.clone()), handler))));
    } else {
        let handler = make_handler(shared.clone(), HandlerMode::Seq);
        ex.tasks.push(Task::new("conn", Box::pin(token.run(SimRead(shared.clone()), SimWrite(shared.clone()), handler))));
    }
    Conn { ex, shared, runner: 0, mode }
}

pub const C13_FAULTS: &[&str] = &["connection_future_dropped", "token_dropped_unused", "pending_request_cancelled", "handler_panic_unwind", "woken_request_cancelled"];
pub const C13_PROBES: &[&str] = &[
    "two_pending_two_releases_between_polls", "fresh_request_barged", "limit_reached", "request_ready_first_poll",
    "request_woken_then_ready", "clone_used", "clone_from_used", "run_to_completion", "shutdown_future_polled", "shutdown_ready_after_last_token",
    "clone_shutdown_independent", "connection_task_interleaved", "connection_task_finished", "huge_buffer_size_config", "request_repolled_with_new_waker", "up_to_40_requests_queued", "history_of_2000plus_operations",
];

fn run_token(cx: &mut Ctx, token: Token, mode: u32, bufsize: usize, runner_shut: bool) -> Result<(), Violation> {
    // mode 0: client closes at once; 1: one request served; 2: handler panics (unwinding through Token::run)
    let mut wire = Vec::new();
    if mode > 0 {
        begin(1, RESPONDER, 0, 0).encode(&mut wire);
        Rec::new(PARAMS, 1, Vec::new(), 0).encode(&mut wire);
        Rec::new(STDIN, 1, Vec::new(), 0).encode(&mut wire);
    }
    let knobs = Knobs { read_style: cx.ch.pick(4), write_style: cx.ch.pick(4), read_pending: cx.ch.one_of(&[0u32, 4]), write_pending: cx.ch.one_of(&[0u32, 4]), deliver_style: cx.ch.pick(3), spurious_polls: 0, fresh_wakers: cx.ch.chance(1, 2), vectored_first_only: cx.ch.chance(1, 4) };
    let inner = std::mem::replace(cx, Ctx::new(Chooser::replay(Vec::new()), false));
    let segs = vec![Seg { end: wire.len(), gate: Gate::Open }];
    let world = World::new(inner, knobs, wire, segs);
    let shared: Shared = Arc::new(Mutex::new(world));
    let _ = bufsize;
    let mut ex = Exec::new(shared.clone());
    if mode == 2 {
        let handler = panic_handler(shared.clone());
        ex.tasks.push(Task::new("conn", Box::pin(token.run(SimRead(shared.clone()), SimWrite(shared.clone()), handler))));
    } else {
        let handler = make_handler(shared.clone(), HandlerMode::Seq);
        ex.tasks.push(Task::new("conn", Box::pin(token.run(SimRead(shared.clone()), SimWrite(shared.clone()), handler))));
    }
    let end = ex.run(&mut |_, _| Vec::new());
    let done = ex.tasks[0].done();
    let panicked = ex.tasks[0].panicked.clone();
    drop(ex);
    {
        let mut g = lock(&shared);
        let back = std::mem::replace(&mut g.cx, Ctx::new(Chooser::replay(Vec::new()), false));
        *cx = back;
    }
    vcheck!(matches!(end, RunEnd::Quiescent) && done, "c13_run_not_finished", "connection on a closing client did not finish");
    if runner_shut {
        // graceful shutdown already requested for this token's runner: the task stops before any handler
        vcheck!(panicked.is_none(), "c14_handler_started_after_shutdown", "a handler ran (and panicked) on a token whose runner was already shut down");
    } else if mode == 2 {
        vcheck!(panicked.as_deref().map_or(false, |p| p.contains("scripted handler panic")), "c13_panic_not_propagated", "handler panic was not propagated through Token::run (got {panicked:?})");
    } else if let Some(p) = panicked {
        vfail!("panic", "Token::run", "{p}");
    }
    cx.probe("run_to_completion");
    Ok(())
}

fn panic_handler(sh: Shared) -> impl for<'a> FnMut(&'a mut fastcgi_server::async_io::Request<'_, SimRead, SimWrite>) -> futures_util::future::BoxFuture<'a, std::io::Result<fastcgi_server::ExitStatus>> {
    move |req| {
        let sh = sh.clone();
        Box::pin(async move {
            // suspend at least once (when input is not there yet) so that other operations - a shutdown request,
            // token drops - can land while this handler is in flight; then unwind through Token::run
            let mut b = [0u8; 1];
            let _ = std::future::poll_fn(|cx| Pin::new(&mut *req).poll_read(cx, &mut b)).await;
            lock(&sh).cx.fault("handler_panic_unwind");
            panic!("scripted handler panic");
        })
    }
}

pub fn c13(cx: &mut Ctx) -> VResult {
    cx.declare(C13_FAULTS, C13_PROBES);
    let limit = 1 + cx.ch.weighted(&[3, 4, 2, 1]);
    // the connection limit must not depend on other configuration: some histories use an absurd buffer size
    // (buffers are only allocated when a connection runs, so these histories run none)
    let huge_buf = cx.ch.chance(1, 12);
    let cfg = config(if huge_buf { cx.ch.one_of(&[usize::MAX, usize::MAX / 2 + 1, usize::MAX / 4 + 1, 1 << 40]) } else { 64 }, limit);
    if huge_buf { cx.probe("huge_buffer_size_config"); }
    let mut runners: Vec<Option<Arc<Runner>>> = vec![Some(Arc::new(cfg.async_runner()))];
    let mut pend: Vec<Pend> = Vec::new();
    let mut tokens: Vec<(Token, usize)> = Vec::new();
    let mut shuts: Vec<Shut> = Vec::new();
    let mut conns: Vec<Conn> = Vec::new();
    let mut next_id = 0usize;
    let mut releases_since_poll = 0usize;
    // one history in 25 lets up to 40 requests queue (wait queues of fixed size, counters of small width)
    let many = cx.ch.chance(1, 25);
    let max_pending = if many { 40 } else { 5 };
    if many { cx.probe("up_to_40_requests_queued"); }
    // and one in 250 is a long history (thousands of acquire/release cycles)
    let long = !many && cx.ch.chance(1, 250);
    if long { cx.probe("history_of_2000plus_operations"); }
    let steps = if long { cx.ch.range(2000, 5000) } else if many { cx.ch.range(60, 260) } else { cx.ch.range(6, 70) };
    // in half of the histories every poll of a get_token future hands it a Waker of its own; only the one from the
    // most recent poll counts as "the request was woken" (the Future::poll contract)
    let fresh_wakers = cx.ch.chance(1, 2);
    let mut history: Vec<String> = Vec::new();
    cx.nontrivial = true;
    for _step in 0..steps {
        let live = tokens.len() + conns.len();
        let free = limit - live.min(limit);
        // choose an operation; bias towards building queues and releasing several tokens between polls
        let can_new = pend.len() < max_pending && runners.iter().any(Option::is_some);
        let op = cx.ch.weighted(&[
            if can_new { 5 } else { 0 },                 // 0 new request
            if !pend.is_empty() { 6 } else { 0 },        // 1 poll a request
            if !tokens.is_empty() { 5 } else { 0 },      // 2 drop a token unused
            if !pend.is_empty() { 2 } else { 0 },        // 3 cancel a pending request
            if !tokens.is_empty() && !huge_buf { 3 } else { 0 },      // 4 run a token to completion
            if runners.iter().flatten().count() < 3 && runners.iter().any(Option::is_some) { 1 } else { 0 }, // 5 clone runner
            1,                                           // 6 shutdown a runner without outstanding requests / poll shutdown futures
            if !tokens.is_empty() && conns.len() < 3 && !huge_buf { 3 } else { 0 }, // 7 start a connection task (token lives inside it)
            if !conns.is_empty() { 8 } else { 0 },       // 8 advance a connection task by a few scheduler steps
            if !conns.is_empty() { 1 } else { 0 },       // 9 drop a connection task (its future is dropped mid-flight)
        ]);
        match op {
            0 => {
                let live_r: Vec<usize> = runners.iter().enumerate().filter(|(_, r)| r.is_some()).map(|(i, _)| i).collect();
                let ri = live_r[cx.ch.pick(live_r.len() as u32) as usize];
                let r = runners[ri].as_ref().expect("runner").clone();
                // call get_token() NOW (not lazily at the first poll): a created-but-unpolled request is part of
                // the histories the property quantifies over. The future borrows the runner, which `_keep` keeps alive.
                let rp: *const Runner = Arc::as_ptr(&r);
                let fut: Pin<Box<dyn Future<Output = Token>>> = Box::pin(unsafe { (*rp).get_token() });
                pend.push(Pend { fut, _keep: r, flag: WakeFlag::new(false), polled: false, wakes_at_pending: 0, runner: ri, id: next_id });
                history.push(format!("new#{next_id}@r{ri}"));
                cx.ev("new_request", next_id as u64, ri as u64);
                if ri > 0 { cx.probe("clone_used"); }
                next_id += 1;
            }
            1 => {
                // prefer woken requests half of the time
                let woken: Vec<usize> = pend.iter().enumerate().filter(|(_, p)| p.polled && p.flag.wakes() > p.wakes_at_pending).map(|(i, _)| i).collect();
                let i = if !woken.is_empty() && cx.ch.chance(1, 2) { woken[cx.ch.pick(woken.len() as u32) as usize] } else { cx.ch.pick(pend.len() as u32) as usize };
                let earlier_queued = pend.iter().any(|q| q.polled);
                let p = &mut pend[i];
                let was_polled = p.polled;
                let was_woken = p.polled && p.flag.wakes() > p.wakes_at_pending;
                if fresh_wakers && p.polled {
                    p.flag = WakeFlag::new(false);
                    p.wakes_at_pending = 0;
                    cx.probe("request_repolled_with_new_waker");
                }
                let waker = Waker::from(p.flag.clone());
                let mut c = Context::from_waker(&waker);
                let wakes_before = p.flag.wakes();
                let r = guard(|| p.fut.as_mut().poll(&mut c));
                let r = match r { Ok(r) => r, Err(pm) => vfail!("panic", "Runner::get_token", "{pm}") };
                cx.ev("poll_request", p.id as u64, free as u64);
                if releases_since_poll >= 2 && pend.iter().filter(|q| q.polled).count() >= 2 { cx.probe("two_pending_two_releases_between_polls"); }
                releases_since_poll = 0;
                match r {
                    Poll::Ready(t) => {
                        let id = pend[i].id;
                        let ri = pend[i].runner;
                        history.push(format!("poll#{id}=ready"));
                        vcheck!(free > 0, "c13_limit_exceeded", "token #{id} granted while {live} tokens are alive (limit {limit}); history: {}", history.join(" "));
                        if !was_polled { cx.probe("request_ready_first_poll"); if earlier_queued { cx.probe("fresh_request_barged"); } }
                        if was_woken { cx.probe("request_woken_then_ready"); }
                        pend.remove(i);
                        tokens.push((t, ri));
                        if tokens.len() == limit { cx.probe("limit_reached"); }
                    }
                    Poll::Pending => {
                        let p = &mut pend[i];
                        history.push(format!("poll#{}=pending", p.id));
                        if free > 0 && !was_polled && !earlier_queued {
                            vfail!("c13_not_immediate", "", "fresh request #{} not ready at its first poll although {free} slot(s) are free and nothing is queued; history: {}", p.id, history.join(" "));
                        }
                        if free > 0 && was_woken {
                            vfail!("c13_woken_not_served", "", "woken request #{} polled while {free} slot(s) are free did not get the token; history: {}", p.id, history.join(" "));
                        }
                        p.polled = true;
                        let _ = wakes_before;
                        p.wakes_at_pending = p.flag.wakes();
                    }
                }
            }
            2 => {
                let j = cx.ch.pick(tokens.len() as u32) as usize;
                let (t, _) = tokens.remove(j);
                drop(t);
                releases_since_poll += 1;
                history.push("drop_token".into());
                cx.fault("token_dropped_unused");
                cx.ev("drop_token", j as u64, 0);
            }
            3 => {
                let i = cx.ch.pick(pend.len() as u32) as usize;
                let p = pend.remove(i);
                if p.polled && p.flag.wakes() > p.wakes_at_pending { cx.fault("woken_request_cancelled"); }
                history.push(format!("cancel#{}", p.id));
                cx.fault("pending_request_cancelled");
                cx.ev("cancel_request", p.id as u64, 0);
                drop(p);
            }
            4 => {
                let j = cx.ch.pick(tokens.len() as u32) as usize;
                let (t, tr) = tokens.remove(j);
                let shut = runners[tr].is_none();
                let mode = cx.ch.pick(3);
                history.push(format!("run_token(mode {mode})"));
                cx.ev("run_token", u64::from(mode), 0);
                run_token(cx, t, mode, 64, shut)?;
                releases_since_poll += 1;
            }
            5 => {
                let live_r: Vec<usize> = runners.iter().enumerate().filter(|(_, r)| r.is_some()).map(|(i, _)| i).collect();
                let ri = live_r[cx.ch.pick(live_r.len() as u32) as usize];
                let via_clone_from = cx.ch.chance(1, 3);
                let c = if via_clone_from {
                    // the equivalent route: an unrelated runner (own limit) overwritten with Clone::clone_from
                    let extra = 1 + cx.ch.pick(3) as usize;
                    let mut other = config(64, limit + extra).async_runner();
                    other.clone_from(runners[ri].as_ref().expect("runner"));
                    cx.probe("clone_from_used");
                    other
                } else {
                    Runner::clone(runners[ri].as_ref().expect("runner"))
                };
                runners.push(Some(Arc::new(c)));
                history.push(format!("{} r{ri}", if via_clone_from { "clone_from" } else { "clone" }));
                cx.ev("clone_runner", ri as u64, 0);
            }
            7 => {
                let j = cx.ch.pick(tokens.len() as u32) as usize;
                let (t, tr) = tokens.remove(j);
                let mode = cx.ch.weighted(&[1, 4, 1]) as u32;
                let mut c = start_conn(cx, t, mode, false);
                c.runner = tr;
                history.push(format!("start_conn(mode {mode})"));
                cx.ev("start_conn", u64::from(mode), 0);
                cx.probe("connection_task_interleaved");
                conns.push(c);
            }
            8 => {
                let i = cx.ch.pick(conns.len() as u32) as usize;
                let k = cx.ch.range(1, 12) as u64;
                let c = &mut conns[i];
                c.ex.budget = Some(k);
                let end = c.ex.run(&mut |_, _| Vec::new());
                cx.ev("step_conn", i as u64, k);
                let done = c.ex.tasks[0].done();
                history.push(format!("step_conn#{i}({k}){}", if done { "=done" } else { "" }));
                if done || matches!(end, RunEnd::Quiescent | RunEnd::StepCap) {
                    if !done {
                        // nothing enabled but unfinished: a hang of the connection (reported by C07/C12; here just drop it)
                        cx.probe("conn_quiescent_unfinished");
                    }
                    let c = conns.remove(i);
                    let panicked = c.ex.tasks[0].panicked.clone();
                    let shut = runners[c.runner].is_none();
                    if c.mode == 2 {
                        // (a handler that was already running when its runner was shut down may still panic)
                        if let Some(p) = &panicked { vcheck!(p.contains("scripted handler panic"), "panic", "unexpected panic in connection: {p}"); }
                    } else if let Some(p) = panicked {
                        vfail!("panic", "Token::run", "{p}");
                    }
                    // merge the connection's event digest and statistics
                    let Conn { ex, shared, .. } = c;
                    drop(ex);
                    let g = lock(&shared);
                    cx.st.merge(&g.cx.st);
                    cx.digest = fnv_u64(g.cx.digest, cx.digest);
                    drop(g);
                    releases_since_poll += 1;
                    cx.probe("connection_task_finished");
                }
            }
            9 => {
                let i = cx.ch.pick(conns.len() as u32) as usize;
                let c = conns.remove(i);
                history.push(format!("drop_conn#{i}"));
                cx.ev("drop_conn", i as u64, 0);
                cx.fault("connection_future_dropped");
                let Conn { ex, shared, .. } = c;
                drop(ex);
                let g = lock(&shared);
                cx.st.merge(&g.cx.st);
                cx.digest = fnv_u64(g.cx.digest, cx.digest);
                drop(g);
                releases_since_poll += 1;
            }
            _ => {
                // shutdown a runner that has no outstanding get_token futures (they borrow it), or poll a shutdown future
                let cand: Vec<usize> = runners.iter().enumerate()
                    .filter(|(i, r)| r.is_some() && !pend.iter().any(|p| p.runner == *i) && runners.iter().flatten().count() > 1)
                    .map(|(i, _)| i).collect();
                if !cand.is_empty() && (shuts.is_empty() || cx.ch.chance(1, 3)) {
                    let ri = cand[cx.ch.pick(cand.len() as u32) as usize];
                    let arc = runners[ri].take().expect("runner");
                    match Arc::try_unwrap(arc) {
                        Ok(r) => {
                            let fut = r.shutdown();
                            shuts.push(Shut { fut: Box::pin(fut), flag: WakeFlag::new(false), runner: ri, done: false, wakes_at_pending: 0, polled: false });
                            history.push(format!("shutdown r{ri}"));
                            cx.ev("shutdown_runner", ri as u64, 0);
                        }
                        Err(a) => { runners[ri] = Some(a); }
                    }
                }
                for s in shuts.iter_mut().filter(|s| !s.done) {
                    let live_of = tokens.iter().filter(|(_, r)| *r == s.runner).count() + conns.iter().filter(|c| c.runner == s.runner).count();
                    let waker = Waker::from(s.flag.clone());
                    let mut c = Context::from_waker(&waker);
                    let r = s.fut.as_mut().poll(&mut c);
                    cx.probe("shutdown_future_polled");
                    cx.ev("poll_shutdown", s.runner as u64, live_of as u64);
                    match r {
                        Poll::Ready(()) => {
                            vcheck!(live_of == 0, "c14_shutdown_ready_early", "shutdown future of runner {} completed while {live_of} of its tokens are alive; history: {}", s.runner, history.join(" "));
                            if tokens.iter().any(|(_, r)| *r != s.runner) { cx.probe("clone_shutdown_independent"); }
                            cx.probe("shutdown_ready_after_last_token");
                            s.done = true;
                        }
                        Poll::Pending => {
                            vcheck!(live_of > 0, "c14_shutdown_not_ready", "shutdown future of runner {} is Pending although none of its tokens are alive; history: {}", s.runner, history.join(" "));
                            s.polled = true;
                            s.wakes_at_pending = s.flag.wakes();
                        }
                    }
                }
            }
        }
        // ---- invariants after every operation
        let live = tokens.len() + conns.len();
        vcheck!(live <= limit, "c13_limit_exceeded", "{live} tokens alive with limit {limit}; history: {}", history.join(" "));
        let free = limit - live;
        let queued: Vec<&Pend> = pend.iter().filter(|p| p.polled).collect();
        if free > 0 && !queued.is_empty() {
            let any_woken = queued.iter().any(|p| p.flag.wakes() > p.wakes_at_pending);
            if !any_woken {
                vfail!("c13_slot_stranded", "", "{free} slot(s) free, {} request(s) pending, none of them woken since it last returned Pending; history: {}", queued.len(), history.join(" "));
            }
        }
        // a shutdown future whose last token is gone must have been woken
        for s in shuts.iter().filter(|s| !s.done && s.polled) {
            let live_of = tokens.iter().filter(|(_, r)| *r == s.runner).count() + conns.iter().filter(|c| c.runner == s.runner).count();
            if live_of == 0 {
                vcheck!(s.flag.wakes() > s.wakes_at_pending, "c14_shutdown_not_woken", "last token of runner {} dropped but its shutdown future was not woken; history: {}", s.runner, history.join(" "));
            }
        }
        cx.state(fnv_u64(live as u64, fnv_u64(queued.len() as u64, fnv_u64(free as u64, limit as u64))));
    }
    if cx.want_sample {
        cx.sample = Some(format!("limit={limit} history: {}", history.join(" ")));
    }
    Ok(())
}


pub const C14M_PROBES: &[&str] = &["multi_idle_conns_woken", "multi_conn_over_64", "multi_last_token_dropped_while_unwinding", "multi_conn_mid_request_at_shutdown", "multi_shutdown_ready"];

/// C14 with several live connections: all idle keep-alive connections (peers stay connected) must be
/// woken by one shutdown request and stop; the shutdown future completes after the last of them.
pub fn c14_multi(cx: &mut Ctx) -> VResult {
    cx.declare(C13_FAULTS, C14M_PROBES);
    // scale: rarely more connections on one runner than any internal batch size might be (64, 128, 256)
    let scale = cx.ch.chance(1, 50);
    let n = if scale { cx.probe("multi_conn_over_64"); cx.ch.one_of(&[65usize, 66, 100, 129, 260]) } else { 1 + cx.ch.weighted(&[1, 3, 3, 1]) };
    let cfg = config(64, n + cx.ch.pick(2) as usize);
    let runner = cfg.async_runner();
    let mut conns: Vec<Conn> = Vec::new();
    for _ in 0..n {
        let fut = runner.get_token();
        futures_util::pin_mut!(fut);
        let w = Waker::from(WakeFlag::new(false));
        let mut c = Context::from_waker(&w);
        let Poll::Ready(t) = fut.poll(&mut c) else { panic!("harness: token not ready") };
        conns.push(start_conn(cx, t, 1, true));
    }
    cx.nontrivial = true;
    // advance the connections for a while (some finish their request and go idle, some are mid-request)
    let rounds = if scale { cx.ch.range(0, 400) } else { cx.ch.range(0, 40) };
    for _ in 0..rounds {
        let i = cx.ch.pick(conns.len() as u32) as usize;
        let k = cx.ch.range(1, 30) as u64;
        conns[i].ex.budget = Some(k);
        let _ = conns[i].ex.run(&mut |_, _| Vec::new());
        cx.ev("step_conn", i as u64, k);
    }
    let mut idle = 0;
    for c in &conns {
        let g = lock(&c.shared);
        vcheck!(!c.ex.tasks[0].done(), "c14_conn_ended_early", "a keep-alive connection whose peer stays connected ended before shutdown");
        if !g.handler_log.is_empty() && g.handler_log.iter().all(|h| h.finished) && g.end_requests >= g.handler_log.len() { idle += 1; } else { cx.probe("multi_conn_mid_request_at_shutdown"); }
    }
    let flag = WakeFlag::new(false);
    let mut sfut: Pin<Box<dyn Future<Output = ()>>> = Box::pin(runner.shutdown());
    cx.ev("shutdown", idle as u64, n as u64);
    {
        let w = Waker::from(flag.clone());
        let mut c = Context::from_waker(&w);
        vcheck!(sfut.as_mut().poll(&mut c).is_pending(), "c14_shutdown_ready_early", "shutdown future Ready while {n} connection tokens are alive");
    }
    // run every connection until nothing is enabled any more (strict executor: only woken tasks are polled)
    let order: Vec<usize> = { let mut o: Vec<usize> = (0..conns.len()).collect(); for i in (1..o.len()).rev() { let j = cx.ch.pick(i as u32 + 1) as usize; o.swap(i, j); } o };
    // the less-travelled end of a connection: in one case of 6 the last connection does not return but is destroyed by a
    // panic that unwinds through its task - the future, and the token in it, are dropped while the thread is panicking
    let unwind_last = cx.ch.chance(1, 6);
    for (oi, &i) in order.iter().enumerate() {
        if unwind_last && oi + 1 == order.len() {
            struct DropInUnwind(Option<Exec>);
            impl Drop for DropInUnwind { fn drop(&mut self) { drop(self.0.take()); } }
            let sh = conns[i].shared.clone();
            let ex = std::mem::replace(&mut conns[i].ex, Exec::new(sh));
            let g = DropInUnwind(Some(ex));
            let r = guard(move || { let _g = g; panic!("stand-in for a handler panic that unwinds through Token::run"); });
            assert!(r.is_err(), "harness: the stand-in panic did not unwind");
            cx.probe("multi_last_token_dropped_while_unwinding");
            let w = Waker::from(flag.clone());
            let mut c = Context::from_waker(&w);
            let r = sfut.as_mut().poll(&mut c);
            vcheck!(flag.wakes() > 0, "c14_shutdown_not_woken", "the last connection was destroyed by an unwinding panic, but the shutdown future's waker never fired");
            vcheck!(r.is_ready(), "c14_shutdown_not_ready", "the last connection was destroyed by an unwinding panic, but the shutdown future is Pending");
            cx.probe("multi_shutdown_ready");
            break;
        }
        let before_handlers = lock(&conns[i].shared).handler_log.len();
        conns[i].ex.budget = None;
        let end = conns[i].ex.run(&mut |_, _| Vec::new());
        vcheck!(matches!(end, RunEnd::Quiescent), "hang", "connection {i} did not settle after shutdown");
        let g = lock(&conns[i].shared);
        if !conns[i].ex.tasks[0].done() {
            vfail!("c14_connection_not_stopped", "multi", "connection {i} of {n} was not woken / did not stop after shutdown (handlers {}, suspended on read: {})", g.handler_log.len(), g.read_waker.is_some());
        }
        if let Some(p) = &conns[i].ex.tasks[0].panicked { vfail!("panic", "Token::run", "{p}"); }
        vcheck!(g.handler_log.iter().all(|h| h.finished), "c14_request_not_completed", "connection {i}: a handler was left unfinished");
        vcheck!(g.handler_log.len() <= before_handlers.max(1), "c14_handler_started_after_shutdown", "connection {i}: a new handler started after shutdown");
        vcheck!(g.end_requests >= g.handler_log.iter().filter(|h| h.status.as_deref().map_or(false, |s| !s.starts_with("err:"))).count(), "c14_request_not_completed", "connection {i}: started request has no EndRequest");
        if idle > 0 { cx.probe("multi_idle_conns_woken"); }
        drop(g);
        // the shutdown future stays Pending until the last connection is gone
        let last = order.iter().all(|&j| conns[j].ex.tasks[0].done());
        let w = Waker::from(flag.clone());
        let mut c = Context::from_waker(&w);
        let wakes_before = flag.wakes();
        let _ = wakes_before;
        let r = sfut.as_mut().poll(&mut c);
        if last {
            vcheck!(flag.wakes() > 0, "c14_shutdown_not_woken", "all connections stopped but the shutdown future's waker never fired");
            vcheck!(r.is_ready(), "c14_shutdown_not_ready", "all connections stopped but the shutdown future is Pending");
            cx.probe("multi_shutdown_ready");
        } else {
            vcheck!(r.is_pending(), "c14_shutdown_ready_early", "shutdown future Ready while connections are still alive");
        }
    }
    for c in conns {
        let Conn { ex, shared, .. } = c;
        drop(ex);
        let g = lock(&shared);
        cx.st.merge(&g.cx.st);
        cx.digest = fnv_u64(g.cx.digest, cx.digest);
    }
    if cx.want_sample { cx.sample = Some(format!("{n} keep-alive connections, {idle} idle at shutdown, {rounds} stepping rounds before")); }
    Ok(())
}
