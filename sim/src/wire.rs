//! The harness's own FastCGI codec, written from the specification.
//! It never calls `fastcgi_server::protocol`; it is the reference the library
//! is compared with, and it generates the client traffic.

pub const BEGIN: u8 = 1;
pub const ABORT: u8 = 2;
pub const END: u8 = 3;
pub const PARAMS: u8 = 4;
pub const STDIN: u8 = 5;
pub const STDOUT: u8 = 6;
pub const STDERR: u8 = 7;
pub const DATA: u8 = 8;
pub const GETVALUES: u8 = 9;
pub const GETVALUESRESULT: u8 = 10;
pub const UNKNOWN: u8 = 11;

pub const RESPONDER: u16 = 1;
pub const AUTHORIZER: u16 = 2;
pub const FILTER: u16 = 3;

pub const ST_COMPLETE: u8 = 0;
pub const ST_CANT_MPX: u8 = 1;
pub const ST_OVERLOADED: u8 = 2;
pub const ST_UNKNOWN_ROLE: u8 = 3;

pub const VAR_NAMES: [&str; 3] = ["FCGI_MAX_CONNS", "FCGI_MAX_REQS", "FCGI_MPXS_CONNS"];

#[derive(Debug, Clone)]
pub struct Rec {
    pub version: u8,
    pub rtype: u8,
    pub id: u16,
    pub content: Vec<u8>,
    pub padding: u8,
    /// Value of the reserved header byte and of every padding byte (clients may send anything there;
    /// not part of record equality).
    pub reserved: u8,
    pub pad_fill: u8,
}

impl PartialEq for Rec {
    fn eq(&self, o: &Rec) -> bool {
        self.version == o.version && self.rtype == o.rtype && self.id == o.id && self.content == o.content && self.padding == o.padding
    }
}
impl Eq for Rec {}

impl Rec {
    pub fn new(rtype: u8, id: u16, content: Vec<u8>, padding: u8) -> Rec {
        assert!(content.len() <= 65535);
        Rec { version: 1, rtype, id, content, padding, reserved: 0, pad_fill: 0 }
    }
    pub fn len(&self) -> usize {
        8 + self.content.len() + usize::from(self.padding)
    }
    pub fn encode(&self, out: &mut Vec<u8>) {
        out.push(self.version);
        out.push(self.rtype);
        out.extend_from_slice(&self.id.to_be_bytes());
        out.extend_from_slice(&(self.content.len() as u16).to_be_bytes());
        out.push(self.padding);
        out.push(self.reserved);
        out.extend_from_slice(&self.content);
        out.extend(std::iter::repeat(self.pad_fill).take(self.padding.into()));
    }
    pub fn bytes(&self) -> Vec<u8> {
        let mut v = Vec::with_capacity(self.len());
        self.encode(&mut v);
        v
    }
    pub fn short(&self) -> String {
        format!(
            "{{t={} id={} len={} pad={} body={}}}",
            self.rtype, self.id, self.content.len(), self.padding,
            crate::core::hex(&self.content[..self.content.len().min(24)])
        )
    }
}

pub fn encode_all(recs: &[Rec]) -> Vec<u8> {
    let mut v = Vec::new();
    for r in recs {
        r.encode(&mut v);
    }
    v
}

/// Decodes as many complete records as possible; returns them and the number of bytes consumed.
pub fn decode_all(b: &[u8]) -> (Vec<Rec>, usize) {
    let mut out = Vec::new();
    let mut p = 0;
    while b.len() - p >= 8 {
        let clen = usize::from(u16::from_be_bytes([b[p + 4], b[p + 5]]));
        let pad = usize::from(b[p + 6]);
        if b.len() - p < 8 + clen + pad {
            break;
        }
        out.push(Rec {
            version: b[p],
            rtype: b[p + 1],
            id: u16::from_be_bytes([b[p + 2], b[p + 3]]),
            content: b[p + 8..p + 8 + clen].to_vec(),
            padding: b[p + 6],
            reserved: b[p + 7],
            pad_fill: if pad > 0 { b[p + 8 + clen] } else { 0 },
        });
        p += 8 + clen + pad;
    }
    (out, p)
}

pub fn std_padding(len: usize) -> u8 {
    ((8 - (len % 8)) % 8) as u8
}

pub fn varint(n: usize, out: &mut Vec<u8>) {
    assert!(n <= 0x7fff_ffff);
    if n < 128 {
        out.push(n as u8);
    } else {
        out.extend_from_slice(&((n as u32) | 0x8000_0000).to_be_bytes());
    }
}

/// Forces a 4-byte encoding even for small values (legal per the specification).
pub fn varint4(n: usize, out: &mut Vec<u8>) {
    out.extend_from_slice(&((n as u32) | 0x8000_0000).to_be_bytes());
}

pub fn nv(name: &[u8], value: &[u8], out: &mut Vec<u8>) {
    varint(name.len(), out);
    varint(value.len(), out);
    out.extend_from_slice(name);
    out.extend_from_slice(value);
}

pub fn nv_len(name: &[u8], value: &[u8]) -> usize {
    let l = |n: usize| if n < 128 { 1 } else { 4 };
    l(name.len()) + l(value.len()) + name.len() + value.len()
}

/// Reads a var-int from `b` at `*p`; None if incomplete.
pub fn read_varint(b: &[u8], p: &mut usize) -> Option<usize> {
    let first = *b.get(*p)?;
    if first < 128 {
        *p += 1;
        Some(usize::from(first))
    } else {
        if b.len() - *p < 4 {
            return None;
        }
        let v = u32::from_be_bytes([b[*p] & 0x7f, b[*p + 1], b[*p + 2], b[*p + 3]]);
        *p += 4;
        Some(v as usize)
    }
}

/// Decodes complete pairs from `b`; returns pairs and bytes consumed.
pub fn decode_nv(b: &[u8]) -> (Vec<(Vec<u8>, Vec<u8>)>, usize) {
    let mut out = Vec::new();
    let mut p = 0;
    loop {
        let mut q = p;
        let Some(nl) = read_varint(b, &mut q) else { break };
        let Some(vl) = read_varint(b, &mut q) else { break };
        let Some(end) = q.checked_add(nl).and_then(|x| x.checked_add(vl)) else { break };
        if end > b.len() {
            break;
        }
        out.push((b[q..q + nl].to_vec(), b[q + nl..end].to_vec()));
        p = end;
    }
    (out, p)
}

pub fn begin_body(role: u16, flags: u8) -> Vec<u8> {
    let mut v = vec![0u8; 8];
    v[..2].copy_from_slice(&role.to_be_bytes());
    v[2] = flags;
    v
}

pub fn begin(id: u16, role: u16, flags: u8, padding: u8) -> Rec {
    Rec::new(BEGIN, id, begin_body(role, flags), padding)
}

pub fn end_request(id: u16, app: u32, proto: u8) -> Rec {
    let mut v = vec![0u8; 8];
    v[..4].copy_from_slice(&app.to_be_bytes());
    v[4] = proto;
    Rec::new(END, id, v, 0)
}

pub fn unknown_reply(id: u16, t: u8) -> Rec {
    let mut v = vec![0u8; 8];
    v[0] = t;
    Rec::new(UNKNOWN, id, v, 0)
}

/// GetValuesResult for the set of known variables (bit i = VAR_NAMES[i]).
pub fn get_values_result(vars: u8, max_conns: usize) -> Rec {
    let mut body = Vec::new();
    for (i, name) in VAR_NAMES.iter().enumerate() {
        if vars & (1 << i) != 0 {
            let val = if i < 2 { max_conns.to_string() } else { "0".to_string() };
            nv(name.as_bytes(), val.as_bytes(), &mut body);
        }
    }
    let pad = std_padding(body.len());
    Rec::new(GETVALUESRESULT, 0, body, pad)
}

pub fn role_streams(role: u16) -> &'static [u8] {
    match role {
        RESPONDER => &[STDIN],
        FILTER => &[STDIN, DATA],
        _ => &[],
    }
}

pub fn is_known_type(t: u8) -> bool {
    (1..=11).contains(&t)
}

/// Position-dependent content pattern: any loss, duplication or shift is visible.
pub fn pattern(tag: u8, len: usize) -> Vec<u8> {
    (0..len).map(|i| tag ^ ((i as u32).wrapping_mul(31).wrapping_add((i as u32) >> 8) as u8)).collect()
}
