//! Reference models: small one-shot specifications over the complete byte string.
//! They are written from the FastCGI specification and the documented behaviour,
//! not from the library's resumable state machines, and use only `wire.rs`.

use crate::wire::*;
use std::collections::BTreeMap;

#[derive(Debug, Clone, PartialEq, Eq)]
pub enum Fatal {
    UnknownVersion(u8),
    InvalidRequestLen(u16),
    NullRequest,
}

#[derive(Debug, Clone)]
pub struct Reply {
    /// Number of wire bytes (absolute offset) that must have been seen for the reply to be owed.
    pub trigger: usize,
    /// Offset of the header of the record that elicits it.
    pub rec_start: usize,
    /// Offset just past the record (content and padding).
    pub rec_end: usize,
    pub bytes: Vec<u8>,
    pub kind: &'static str,
}

pub type Env = BTreeMap<String, Vec<u8>>;

#[derive(Debug, Clone)]
pub struct ReqInfo {
    pub id: u16,
    pub role: u16,
    pub flags: u8,
    pub env: Env,
    /// Offset just past the preamble (incl. padding of the empty Params record).
    pub end: usize,
}

#[derive(Debug, Clone)]
pub enum PreOutcome {
    Done(ReqInfo),
    /// `at`: number of bytes needed before the error can be decided.
    Fatal { err: Fatal, at: usize },
    Incomplete,
}

#[derive(Debug, Clone)]
pub struct PreambleModel {
    pub outcome: PreOutcome,
    pub replies: Vec<Reply>,
    pub pairs_spanning_3: bool,
    pub four_byte_len: bool,
    pub aborted: u32,
}

pub fn env_key(name: &[u8]) -> String {
    String::from_utf8_lossy(name).to_ascii_uppercase()
}

fn known_var(name: &[u8]) -> Option<u8> {
    VAR_NAMES.iter().position(|n| n.as_bytes() == name).map(|i| 1u8 << i)
}

fn getvalues_vars(content: &[u8]) -> u8 {
    let (pairs, _) = decode_nv(content);
    let mut v = 0;
    for (n, _) in pairs {
        if let Some(b) = known_var(&n) {
            v |= b;
        }
    }
    v
}

struct Hdr {
    version: u8,
    t: u8,
    id: u16,
    clen: usize,
    pad: usize,
}

fn hdr(w: &[u8], p: usize) -> Option<Hdr> {
    if w.len() < p + 8 {
        return None;
    }
    Some(Hdr {
        version: w[p],
        t: w[p + 1],
        id: u16::from_be_bytes([w[p + 2], w[p + 3]]),
        clen: usize::from(u16::from_be_bytes([w[p + 4], w[p + 5]])),
        pad: usize::from(w[p + 6]),
    })
}

/// M-preamble. `start` is the offset at which the request parser begins.
pub fn preamble(w: &[u8], start: usize, max_conns: usize) -> PreambleModel {
    let mut m = PreambleModel {
        outcome: PreOutcome::Incomplete,
        replies: Vec::new(),
        pairs_spanning_3: false,
        four_byte_len: false,
        aborted: 0,
    };
    let mut p = start;
    // Active request state
    let mut active: Option<(u16, u16, u8)> = None;
    let mut nvbuf: Vec<u8> = Vec::new();
    let mut rec_ends: Vec<usize> = Vec::new(); // offsets in nvbuf where Params records end

    loop {
        let Some(h) = hdr(w, p) else { return m };
        if h.version != 1 {
            m.outcome = PreOutcome::Fatal { err: Fatal::UnknownVersion(h.version), at: p + 8 };
            return m;
        }
        let body = p + 8;
        let next = body + h.clen + h.pad;
        if !is_known_type(h.t) {
            m.replies.push(Reply { trigger: body, rec_start: p, rec_end: next, bytes: unknown_reply(h.id, h.t).bytes(), kind: "unknown" });
            if w.len() < next { return m; }
            p = next;
            continue;
        }
        let getvalues = h.t == GETVALUES && h.id == 0;
        if getvalues {
            if h.clen > 0 {
                if w.len() < body + h.clen { return m; }
                let vars = getvalues_vars(&w[body..body + h.clen]);
                m.replies.push(Reply {
                    trigger: body + h.clen, rec_start: p, rec_end: next,
                    bytes: get_values_result(vars, max_conns).bytes(), kind: "getvalues",
                });
            }
            if w.len() < next { return m; }
            p = next;
            continue;
        }
        match active {
            None => {
                if h.t == BEGIN {
                    if h.clen != 8 {
                        m.outcome = PreOutcome::Fatal { err: Fatal::InvalidRequestLen(h.clen as u16), at: body };
                        return m;
                    }
                    if w.len() < body + 8 { return m; }
                    let role = u16::from_be_bytes([w[body], w[body + 1]]);
                    let flags = w[body + 2];
                    if !(1..=3).contains(&role) {
                        m.replies.push(Reply {
                            trigger: body + 8, rec_start: p, rec_end: next,
                            bytes: end_request(h.id, 0, ST_UNKNOWN_ROLE).bytes(), kind: "unknown_role",
                        });
                    } else if h.id == 0 {
                        m.outcome = PreOutcome::Fatal { err: Fatal::NullRequest, at: body + 8 };
                        return m;
                    } else {
                        active = Some((h.id, role, flags));
                        nvbuf.clear();
                        rec_ends.clear();
                    }
                }
                if w.len() < next { return m; }
                p = next;
            }
            Some((id, role, flags)) => {
                if h.t == PARAMS && h.id == id {
                    if h.clen == 0 {
                        if w.len() < next { return m; }
                        let (pairs, used) = decode_nv(&nvbuf);
                        let mut env = Env::new();
                        let mut off = 0usize;
                        for (n, v) in &pairs {
                            let l = nv_len(n, v);
                            if n.len() >= 128 || v.len() >= 128 { m.four_byte_len = true; }
                            let crossings = rec_ends.iter().filter(|&&e| e > off && e < off + l).count();
                            if crossings >= 2 { m.pairs_spanning_3 = true; }
                            off += l;
                            env.insert(env_key(n), v.clone());
                        }
                        let _ = used;
                        m.outcome = PreOutcome::Done(ReqInfo { id, role, flags, env, end: next });
                        return m;
                    }
                    let avail = w.len().min(body + h.clen);
                    nvbuf.extend_from_slice(&w[body..avail]);
                    rec_ends.push(nvbuf.len());
                    if w.len() < next { return m; }
                    p = next;
                } else if h.t == ABORT && h.id == id {
                    m.replies.push(Reply {
                        trigger: body, rec_start: p, rec_end: next,
                        bytes: end_request(id, 0, ST_COMPLETE).bytes(), kind: "abort_params",
                    });
                    m.aborted += 1;
                    active = None;
                    if w.len() < next { return m; }
                    p = next;
                } else if h.t == BEGIN && h.id != id {
                    m.replies.push(Reply {
                        trigger: body, rec_start: p, rec_end: next,
                        bytes: end_request(h.id, 0, ST_CANT_MPX).bytes(), kind: "cant_mpx",
                    });
                    if w.len() < next { return m; }
                    p = next;
                } else {
                    if w.len() < next { return m; }
                    p = next;
                }
            }
        }
    }
}

#[derive(Debug, Clone)]
pub struct StreamModel {
    /// Content of each of the role's input streams (index = position in role order).
    pub content: Vec<Vec<u8>>,
    /// Offset of the header at which stream i stops (its empty record or first later-stream record).
    pub stop: Vec<Option<usize>>,
    /// Offset of first own-id AbortRequest header (reachable).
    pub abort: Option<usize>,
    /// First header with a bad version (reachable).
    pub fatal: Option<(usize, Fatal)>,
    pub replies: Vec<Reply>,
    /// Record start offsets (reachable region), plus the end offset of the last complete record.
    pub boundaries: Vec<usize>,
    /// End of the last complete record in the reachable region.
    pub parsed_end: usize,
}

/// M-stream over `w[start..]` for a request with `id` and `role`.
pub fn stream(w: &[u8], start: usize, id: u16, role: u16, max_conns: usize) -> StreamModel {
    let streams = role_streams(role);
    let mut m = StreamModel {
        content: vec![Vec::new(); streams.len()],
        stop: vec![None; streams.len()],
        abort: None,
        fatal: None,
        replies: Vec::new(),
        boundaries: Vec::new(),
        parsed_end: start,
    };
    let mut p = start;
    loop {
        m.boundaries.push(p);
        m.parsed_end = p;
        let Some(h) = hdr(w, p) else { return m };
        if h.version != 1 {
            m.fatal = Some((p, Fatal::UnknownVersion(h.version)));
            return m;
        }
        let body = p + 8;
        let next = body + h.clen + h.pad;
        if !is_known_type(h.t) {
            m.replies.push(Reply { trigger: body, rec_start: p, rec_end: next, bytes: unknown_reply(h.id, h.t).bytes(), kind: "unknown" });
        } else if (h.t == STDIN || h.t == DATA) && h.id == id {
            if let Some(idx) = streams.iter().position(|&s| s == h.t) {
                // a record of stream idx stops every earlier stream that has not stopped yet
                for j in 0..idx {
                    if m.stop[j].is_none() {
                        m.stop[j] = Some(p);
                    }
                }
                if m.stop[idx].is_none() {
                    if h.clen == 0 {
                        m.stop[idx] = Some(p);
                    } else {
                        let avail = w.len().min(body + h.clen);
                        m.content[idx].extend_from_slice(&w[body..avail]);
                    }
                }
            }
        } else if h.t == ABORT && h.id == id {
            m.abort = Some(p);
            return m;
        } else if h.t == BEGIN && h.id != id {
            m.replies.push(Reply {
                trigger: body, rec_start: p, rec_end: next,
                bytes: end_request(h.id, 0, ST_CANT_MPX).bytes(), kind: "cant_mpx",
            });
        } else if h.t == GETVALUES && h.id == 0 && h.clen > 0 {
            if w.len() < body + h.clen { return m; }
            let vars = getvalues_vars(&w[body..body + h.clen]);
            m.replies.push(Reply {
                trigger: body + h.clen, rec_start: p, rec_end: next,
                bytes: get_values_result(vars, max_conns).bytes(), kind: "getvalues",
            });
        }
        if w.len() < next { return m; }
        p = next;
    }
}

impl StreamModel {
    /// The offset a parser with active stream index `active` (None = ignore all)
    /// cannot pass: the hold position, the abort header or the bad header
    /// (usize::MAX if there is none).
    pub fn hold_limit(&self, active: Option<usize>) -> usize {
        let mut pos = usize::MAX;
        if let Some(i) = active {
            if let Some(s) = self.stop[i] {
                pos = pos.min(s);
            }
        }
        if let Some(a) = self.abort { pos = pos.min(a); }
        if let Some((f, _)) = self.fatal { pos = pos.min(f); }
        pos
    }
    /// Position of the parser once everything in `w` is fed and parsed.
    pub fn final_pos(&self, active: Option<usize>) -> usize {
        self.hold_limit(active).min(self.parsed_end)
    }
    /// Replies owed once `fed` bytes are parsed by a parser that cannot pass `limit`.
    pub fn expected_replies(&self, limit: usize, fed: usize) -> Vec<u8> {
        let mut v = Vec::new();
        for r in &self.replies {
            if r.rec_start < limit && r.trigger <= fed {
                v.extend_from_slice(&r.bytes);
            }
        }
        v
    }
}

pub fn concat_replies(rs: &[Reply]) -> Vec<u8> {
    let mut v = Vec::new();
    for r in rs {
        v.extend_from_slice(&r.bytes);
    }
    v
}

/// Wire offset just past the `k`-th content byte (k >= 1) of the request's input stream with index `idx`
/// (same walk as `stream`): everything before that offset has been parsed by whoever delivered that byte.
pub fn stream_byte_end(w: &[u8], start: usize, id: u16, role: u16, idx: usize, k: usize) -> Option<usize> {
    let streams = role_streams(role);
    let mut p = start;
    let mut acc = 0usize;
    loop {
        let h = hdr(w, p)?;
        if h.version != 1 { return None; }
        let body = p + 8;
        let next = body + h.clen + h.pad;
        if (h.t == STDIN || h.t == DATA) && h.id == id {
            if let Some(i) = streams.iter().position(|&s| s == h.t) {
                if i > idx || (i == idx && h.clen == 0) { return None; }
                if i == idx {
                    if acc + h.clen >= k { return Some(body + (k - acc)); }
                    acc += h.clen;
                }
            }
        } else if h.t == ABORT && h.id == id {
            return None;
        }
        if w.len() < next { return None; }
        p = next;
    }
}
