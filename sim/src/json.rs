//! Minimal JSON value, writer and parser (no external crates).

use std::collections::BTreeMap;

#[derive(Debug, Clone, PartialEq)]
pub enum J {
    Null,
    Bool(bool),
    Int(i64),
    Num(f64),
    Str(String),
    Arr(Vec<J>),
    Obj(Vec<(String, J)>),
}

impl J {
    pub fn obj() -> J {
        J::Obj(Vec::new())
    }
    pub fn set(mut self, k: &str, v: J) -> J {
        if let J::Obj(o) = &mut self {
            o.push((k.to_string(), v));
        }
        self
    }
    pub fn s(v: &str) -> J {
        J::Str(v.to_string())
    }
    pub fn i(v: u64) -> J {
        J::Int(v as i64)
    }
    pub fn get(&self, k: &str) -> Option<&J> {
        match self {
            J::Obj(o) => o.iter().find(|(n, _)| n == k).map(|(_, v)| v),
            _ => None,
        }
    }
    pub fn as_str(&self) -> Option<&str> {
        match self { J::Str(s) => Some(s), _ => None }
    }
    pub fn as_u64(&self) -> Option<u64> {
        match self { J::Int(i) => Some(*i as u64), J::Num(f) => Some(*f as u64), _ => None }
    }
    pub fn as_arr(&self) -> Option<&Vec<J>> {
        match self { J::Arr(a) => Some(a), _ => None }
    }
    pub fn from_map(m: &BTreeMap<&'static str, u64>) -> J {
        J::Obj(m.iter().map(|(k, v)| ((*k).to_string(), J::i(*v))).collect())
    }

    pub fn write(&self, out: &mut String, ind: usize) {
        match self {
            J::Null => out.push_str("null"),
            J::Bool(b) => out.push_str(if *b { "true" } else { "false" }),
            J::Int(i) => out.push_str(&i.to_string()),
            J::Num(f) => {
                if f.is_finite() { out.push_str(&format!("{f:.3}")) } else { out.push_str("0") }
            }
            J::Str(s) => {
                out.push('"');
                for c in s.chars() {
                    match c {
                        '"' => out.push_str("\\\""),
                        '\\' => out.push_str("\\\\"),
                        '\n' => out.push_str("\\n"),
                        '\r' => out.push_str("\\r"),
                        '\t' => out.push_str("\\t"),
                        c if (c as u32) < 0x20 => out.push_str(&format!("\\u{:04x}", c as u32)),
                        c => out.push(c),
                    }
                }
                out.push('"');
            }
            J::Arr(a) => {
                if a.is_empty() {
                    out.push_str("[]");
                    return;
                }
                let simple = a.iter().all(|x| matches!(x, J::Int(_) | J::Num(_) | J::Bool(_)));
                if simple {
                    out.push('[');
                    for (i, x) in a.iter().enumerate() {
                        if i > 0 { out.push(','); }
                        x.write(out, 0);
                    }
                    out.push(']');
                    return;
                }
                out.push_str("[\n");
                for (i, x) in a.iter().enumerate() {
                    out.push_str(&" ".repeat(ind + 1));
                    x.write(out, ind + 1);
                    if i + 1 < a.len() { out.push(','); }
                    out.push('\n');
                }
                out.push_str(&" ".repeat(ind));
                out.push(']');
            }
            J::Obj(o) => {
                if o.is_empty() {
                    out.push_str("{}");
                    return;
                }
                out.push_str("{\n");
                for (i, (k, v)) in o.iter().enumerate() {
                    out.push_str(&" ".repeat(ind + 1));
                    J::Str(k.clone()).write(out, 0);
                    out.push_str(": ");
                    v.write(out, ind + 1);
                    if i + 1 < o.len() { out.push(','); }
                    out.push('\n');
                }
                out.push_str(&" ".repeat(ind));
                out.push('}');
            }
        }
    }
    pub fn to_string_pretty(&self) -> String {
        let mut s = String::new();
        self.write(&mut s, 0);
        s.push('\n');
        s
    }
}

pub fn parse(src: &str) -> Result<J, String> {
    let b = src.as_bytes();
    let mut p = 0usize;
    let v = val(b, &mut p)?;
    ws(b, &mut p);
    if p != b.len() {
        return Err(format!("trailing data at {p}"));
    }
    Ok(v)
}

fn ws(b: &[u8], p: &mut usize) {
    while *p < b.len() && matches!(b[*p], b' ' | b'\n' | b'\r' | b'\t') {
        *p += 1;
    }
}

fn val(b: &[u8], p: &mut usize) -> Result<J, String> {
    ws(b, p);
    if *p >= b.len() {
        return Err("eof".into());
    }
    match b[*p] {
        b'{' => {
            *p += 1;
            let mut o = Vec::new();
            ws(b, p);
            if b.get(*p) == Some(&b'}') {
                *p += 1;
                return Ok(J::Obj(o));
            }
            loop {
                ws(b, p);
                let k = match val(b, p)? { J::Str(s) => s, _ => return Err("key".into()) };
                ws(b, p);
                if b.get(*p) != Some(&b':') { return Err("colon".into()); }
                *p += 1;
                let v = val(b, p)?;
                o.push((k, v));
                ws(b, p);
                match b.get(*p) {
                    Some(b',') => { *p += 1; }
                    Some(b'}') => { *p += 1; return Ok(J::Obj(o)); }
                    _ => return Err("obj".into()),
                }
            }
        }
        b'[' => {
            *p += 1;
            let mut a = Vec::new();
            ws(b, p);
            if b.get(*p) == Some(&b']') {
                *p += 1;
                return Ok(J::Arr(a));
            }
            loop {
                a.push(val(b, p)?);
                ws(b, p);
                match b.get(*p) {
                    Some(b',') => { *p += 1; }
                    Some(b']') => { *p += 1; return Ok(J::Arr(a)); }
                    _ => return Err("arr".into()),
                }
            }
        }
        b'"' => {
            *p += 1;
            let mut s = Vec::new();
            while *p < b.len() && b[*p] != b'"' {
                if b[*p] == b'\\' {
                    *p += 1;
                    match b.get(*p) {
                        Some(b'n') => s.push(b'\n'),
                        Some(b'r') => s.push(b'\r'),
                        Some(b't') => s.push(b'\t'),
                        Some(b'u') => {
                            let h = std::str::from_utf8(&b[*p + 1..*p + 5]).map_err(|e| e.to_string())?;
                            let c = u32::from_str_radix(h, 16).map_err(|e| e.to_string())?;
                            let mut buf = [0; 4];
                            s.extend(char::from_u32(c).unwrap_or('?').encode_utf8(&mut buf).as_bytes());
                            *p += 4;
                        }
                        Some(&c) => s.push(c),
                        None => return Err("esc".into()),
                    }
                } else {
                    s.push(b[*p]);
                }
                *p += 1;
            }
            *p += 1;
            Ok(J::Str(String::from_utf8_lossy(&s).into_owned()))
        }
        b't' => { *p += 4; Ok(J::Bool(true)) }
        b'f' => { *p += 5; Ok(J::Bool(false)) }
        b'n' => { *p += 4; Ok(J::Null) }
        _ => {
            let st = *p;
            while *p < b.len() && matches!(b[*p], b'-' | b'+' | b'.' | b'e' | b'E' | b'0'..=b'9') {
                *p += 1;
            }
            let t = std::str::from_utf8(&b[st..*p]).map_err(|e| e.to_string())?;
            if let Ok(i) = t.parse::<i64>() {
                Ok(J::Int(i))
            } else if let Ok(u) = t.parse::<u64>() {
                Ok(J::Int(u as i64))
            } else {
                t.parse::<f64>().map(J::Num).map_err(|e| format!("num {t}: {e}"))
            }
        }
    }
}
