//! D3: serialising thread scheduler ("baton"). Real OS threads, but exactly one runs at
//! any time; it gives the baton up only at scheduling points, and who gets it next is a
//! Chooser decision — so the interleaving is a pure function of the choice list.
//!
//! Scheduling points: harness operations, every callback of the poller's Waker
//! (clone / wake / wake_by_ref / drop — reached from inside `AtomicWaker::register`
//! and from the inner `Drop`), and the `verif-hooks` points inside the wait group.
//!
//! Serves the wait-group clause of C14.

use crate::core::*;
use crate::d1req::config;
use crate::{vcheck, vfail};
use fastcgi_server::async_io::Token;
use std::cell::RefCell;
use std::future::Future;
use std::pin::Pin;
use std::sync::{Arc, Condvar, Mutex, MutexGuard};
use std::task::{Context, Poll, RawWaker, RawWakerVTable, Waker};
use std::time::Duration;

const MAIN: usize = usize::MAX;

#[derive(Clone, Copy, PartialEq, Eq, Debug)]
enum TS {
    Runnable,
    Blocked,
    Done,
}

struct Inner {
    ch: Chooser,
    turn: usize,
    st: Vec<TS>,
    last_site: Vec<&'static str>,
    events: Vec<(usize, &'static str)>,
    digest: u64,
    skeleton: u64,
    switches: u64,
    woken: bool,
    wakes: u64,
    deadlock: bool,
    abort: bool,
    // oracle state
    tokens_total: usize,
    drops_begun: usize,
    drops_done: usize,
    ready_seen: bool,
    violation: Option<Violation>,
    probes: Vec<&'static str>,
    polls: u64,
    fresh_identity: bool,
    stale_wakes: u64,
}

pub struct Sched {
    m: Mutex<Inner>,
    cv: Condvar,
}

thread_local! {
    static CUR: RefCell<Option<(Arc<Sched>, usize)>> = const { RefCell::new(None) };
}

fn lock_inner(s: &Sched) -> MutexGuard<'_, Inner> {
    s.m.lock().unwrap_or_else(std::sync::PoisonError::into_inner)
}

impl Sched {
    fn wait_turn<'a>(&'a self, mut g: MutexGuard<'a, Inner>, me: usize) -> MutexGuard<'a, Inner> {
        while g.turn != me && !g.abort {
            let (ng, to) = self.cv.wait_timeout(g, Duration::from_secs(60)).unwrap_or_else(std::sync::PoisonError::into_inner);
            g = ng;
            if to.timed_out() && g.turn != me && !g.abort {
                g.abort = true;
                g.violation.get_or_insert(Violation::new("harness_baton_timeout", "", "a simulated thread did not get the baton for 60 s".into()));
                self.cv.notify_all();
            }
        }
        g
    }

    /// Picks who runs next among runnable threads (the caller included if runnable) and hands over.
    fn pass<'a>(&'a self, mut g: MutexGuard<'a, Inner>, me: usize) -> MutexGuard<'a, Inner> {
        let runnable: Vec<usize> = g.st.iter().enumerate().filter(|(_, s)| **s == TS::Runnable).map(|(i, _)| i).collect();
        if runnable.is_empty() {
            // nobody can run: finished, or a lost wake-up
            if g.st.iter().any(|s| *s == TS::Blocked) { g.deadlock = true; }
            g.turn = MAIN;
            self.cv.notify_all();
            return g;
        }
        // index 0 = keep running the same thread when possible (simplest alternative)
        let mut order = runnable.clone();
        if let Some(p) = order.iter().position(|&t| t == me) { order.swap(0, p); }
        let k = if order.len() > 1 { g.ch.pick(order.len() as u32) as usize } else { 0 };
        let next = order[k];
        if next != me {
            g.switches += 1;
            g.turn = next;
            self.cv.notify_all();
        }
        g
    }
}

/// A scheduling point of the calling (simulated) thread.
pub fn point(site: &'static str) {
    let cur = CUR.with(|c| c.borrow().clone());
    let Some((s, me)) = cur else { return };
    let mut g = lock_inner(&s);
    if g.abort { return; }
    g.events.push((me, site));
    let k = fnv(site.as_bytes(), 0xcbf2_9ce4_8422_2325);
    g.skeleton = fnv_u64(k, fnv_u64(me as u64, g.skeleton));
    g.digest = fnv_u64(k, fnv_u64(me as u64, g.digest));
    g.last_site[me] = site;
    g = s.pass(g, me);
    let g = s.wait_turn(g, me);
    drop(g);
}

fn hook(site: &'static str) {
    point(site);
}

// ------------------------------------------------------------------ the poller's waker

struct PW {
    s: Arc<Sched>,
    poller: usize,
    /// Poll generation this waker was handed out for. In "fresh identity" runs only the waker of the most
    /// recent poll wakes the task (Future::poll: "only the Waker from the most recent call should be woken").
    gen: u64,
}

fn pw_clone(p: *const ()) -> RawWaker {
    point("waker_clone");
    unsafe { Arc::increment_strong_count(p as *const PW) };
    RawWaker::new(p, &VTABLE)
}
fn pw_wake(p: *const ()) {
    pw_wake_by_ref(p);
    unsafe { drop(Arc::from_raw(p as *const PW)) };
}
fn pw_wake_by_ref(p: *const ()) {
    point("waker_wake");
    let pw = unsafe { &*(p as *const PW) };
    let mut g = lock_inner(&pw.s);
    if g.fresh_identity && pw.gen != g.polls {
        // a waker from an earlier poll: the task has moved on (e.g. re-polled from another task / combinator)
        g.stale_wakes += 1;
        return;
    }
    g.woken = true;
    g.wakes += 1;
    if g.st[pw.poller] == TS::Blocked {
        g.st[pw.poller] = TS::Runnable;
    }
}
fn pw_drop(p: *const ()) {
    point("waker_drop");
    unsafe { drop(Arc::from_raw(p as *const PW)) };
}
static VTABLE: RawWakerVTable = RawWakerVTable::new(pw_clone, pw_wake, pw_wake_by_ref, pw_drop);

fn make_waker(s: &Arc<Sched>, poller: usize) -> Waker {
    let gen = lock_inner(s).polls;
    let pw = Arc::new(PW { s: s.clone(), poller, gen });
    unsafe { Waker::from_raw(RawWaker::new(Arc::into_raw(pw) as *const (), &VTABLE)) }
}

fn enter(s: &Arc<Sched>, me: usize) {
    CUR.with(|c| *c.borrow_mut() = Some((s.clone(), me)));
    let g = lock_inner(s);
    let g = s.wait_turn(g, me);
    drop(g);
}

fn leave(s: &Arc<Sched>, me: usize) {
    let mut g = lock_inner(s);
    g.st[me] = TS::Done;
    if !g.abort {
        g = s.pass(g, me);
    }
    drop(g);
    CUR.with(|c| *c.borrow_mut() = None);
}

pub const D3_FAULTS: &[&str] = &["thread_switch", "last_drop_between_upgrade_and_register", "last_drop_between_register_and_temp_drop", "last_drop_before_first_poll", "concurrent_token_drops"];
pub const D3_PROBES: &[&str] = &["slot_checked_after_ready", "spurious_repoll", "repolled_with_new_waker_identity", "poller_blocked_then_woken", "ready_at_first_poll", "wake_from_temp_arc_drop", "poller_polled_3plus", "hook_points_seen", "waker_clone_points_seen"];

/// C14 wait group: one poller thread on the shutdown future, 1..3 dropper threads.
pub fn c14_wg(cx: &mut Ctx) -> VResult {
    cx.declare(D3_FAULTS, D3_PROBES);
    static HOOK: std::sync::Once = std::sync::Once::new();
    HOOK.call_once(|| fastcgi_server::async_io::verif::set_sched_hook(Some(hook)));

    let n_tokens = 1 + cx.ch.weighted(&[3, 3, 2, 1]);
    let n_droppers = 1 + cx.ch.pick(3.min(n_tokens as u32)) as usize;
    // the limit equals the number of tokens: once the shutdown future is Ready every token has been dropped, so
    // every slot is free again and a fresh request on a clone of the runner must be served at its first poll
    let cfg = config(64, n_tokens);
    let runner = cfg.async_runner();
    let clone = runner.clone();
    let mut tokens: Vec<Token> = Vec::new();
    for _ in 0..n_tokens {
        let fut = runner.get_token();
        futures_util::pin_mut!(fut);
        let w = Waker::from(crate::exec::WakeFlag::new(false));
        let mut c = Context::from_waker(&w);
        match fut.poll(&mut c) {
            Poll::Ready(t) => tokens.push(t),
            Poll::Pending => panic!("harness: token not available"),
        }
    }
    // distribute tokens over dropper threads
    let mut per: Vec<Vec<Token>> = (0..n_droppers).map(|_| Vec::new()).collect();
    for (i, t) in tokens.into_iter().enumerate() {
        let d = if i < n_droppers { i } else { cx.ch.pick(n_droppers as u32) as usize };
        per[d].push(t);
    }
    let poll_before = cx.ch.chance(1, 3);
    let fresh_identity = cx.ch.chance(1, 2);
    let mut shutdown = Box::pin(runner.shutdown());
    let nthreads = 1 + n_droppers;
    let ch = std::mem::replace(&mut cx.ch, Chooser::replay(Vec::new()));
    let s = Arc::new(Sched {
        m: Mutex::new(Inner {
            ch, turn: MAIN, st: vec![TS::Runnable; nthreads], last_site: vec![""; nthreads], events: Vec::new(),
            digest: cx.digest, skeleton: cx.skeleton, switches: 0, woken: false, wakes: 0, deadlock: false, abort: false,
            tokens_total: n_tokens, drops_begun: 0, drops_done: 0, ready_seen: false, violation: None, probes: Vec::new(), polls: 0, fresh_identity, stale_wakes: 0,
        }),
        cv: Condvar::new(),
    });
    if poll_before {
        // register a waker before any dropper runs (on the main thread, outside the simulation)
        lock_inner(&s).polls += 1;
        let w = make_waker(&s, 0);
        let mut c = Context::from_waker(&w);
        let r = shutdown.as_mut().poll(&mut c);
        let mut g = lock_inner(&s);
        if r.is_ready() { g.violation = Some(Violation::new("c14_shutdown_ready_early", "", "shutdown future Ready before any token was dropped".into())); }
    }
    std::thread::scope(|sc| {
        // thread 0: the poller
        let sp = s.clone();
        let mut fut = shutdown;
        sc.spawn(move || {
            install_panic_hook();
            enter(&sp, 0);
            let r = std::panic::catch_unwind(std::panic::AssertUnwindSafe(|| {
                loop {
                    if lock_inner(&sp).abort { break; }
                    point("poller_before_poll");
                    {
                        let mut g = lock_inner(&sp);
                        g.woken = false;
                        g.polls += 1;
                    }
                    let w = make_waker(&sp, 0);
                    let mut c = Context::from_waker(&w);
                    let r = fut.as_mut().poll(&mut c);
                    drop(w);
                    if r.is_ready() {
                        let mut g = lock_inner(&sp);
                        g.ready_seen = true;
                        if g.drops_begun < g.tokens_total && g.violation.is_none() {
                            g.violation = Some(Violation::new("c14_shutdown_ready_early", "threads", format!("shutdown future Ready while only {} of {} token drops had begun", g.drops_begun, g.tokens_total)));
                        }
                        if g.polls == 1 { g.probes.push("ready_at_first_poll"); }
                        if g.polls >= 3 { g.probes.push("poller_polled_3plus"); }
                        drop(g);
                        // "after the last token has been dropped": dropped completely - its connection slot included
                        let served = {
                            let fut = clone.get_token();
                            futures_util::pin_mut!(fut);
                            let w = Waker::from(crate::exec::WakeFlag::new(false));
                            let mut c = Context::from_waker(&w);
                            fut.poll(&mut c).is_ready()
                        };
                        let mut g = lock_inner(&sp);
                        g.probes.push("slot_checked_after_ready");
                        if !served && g.violation.is_none() {
                            g.violation = Some(Violation::new("c14_ready_before_token_fully_dropped", "threads", "shutdown future Ready, but a request on a clone of the runner (limit = number of tokens) was not served at once: a dropped token still occupies its connection slot".into()));
                        }
                        break;
                    }
                    // wait for the waker: blocked unless already woken
                    let mut g = lock_inner(&sp);
                    if g.abort { break; }
                    if !g.woken && g.polls < 4 && g.ch.chance(1, 4) {
                        // a spurious re-poll (legal for any future), with a new waker identity in fresh-identity runs
                        g.probes.push("spurious_repoll");
                        drop(g);
                        continue;
                    }
                    if !g.woken {
                        g.st[0] = TS::Blocked;
                        g.events.push((0, "poller_blocks"));
                        g = sp.pass(g, 0);
                        g = sp.wait_turn(g, 0);
                        if g.abort { break; }
                        g.probes.push("poller_blocked_then_woken");
                    }
                    drop(g);
                }
            }));
            if r.is_err() {
                let mut g = lock_inner(&sp);
                g.violation.get_or_insert(Violation::new("panic", "WaitGroupFuture::poll", last_panic()));
                g.abort = true;
                sp.cv.notify_all();
            }
            drop(fut);
            leave(&sp, 0);
        });
        for (d, toks) in per.into_iter().enumerate() {
            let sd = s.clone();
            let me = d + 1;
            sc.spawn(move || {
                install_panic_hook();
                enter(&sd, me);
                for t in toks {
                    point("dropper_before_drop");
                    {
                        let mut g = lock_inner(&sd);
                        g.drops_begun += 1;
                        if g.polls == 0 && g.drops_begun == g.tokens_total { g.probes.push("last_drop_before_first_poll"); }
                        drop(g);
                        point("dropper_begun");
                        let mut g = lock_inner(&sd);
                        // where is the poller right now?
                        let site = g.last_site[0];
                        let in_flight = g.drops_begun - g.drops_done;
                        if in_flight >= 2 { g.probes.push("concurrent_token_drops"); }
                        if g.drops_begun == g.tokens_total {
                            if site == "wg_poll_upgraded" || site == "waker_clone" { g.probes.push("last_drop_between_upgrade_and_register"); }
                            if site == "wg_poll_registered" { g.probes.push("last_drop_between_register_and_temp_drop"); }
                        }
                    }
                    drop(t);
                    let mut g = lock_inner(&sd);
                    g.drops_done += 1;
                }
                leave(&sd, me);
            });
        }
        // start: hand the baton to a chosen thread, wait until everything is done or stuck
        {
            let mut g = lock_inner(&s);
            let first = g.ch.pick(nthreads as u32) as usize;
            g.turn = first;
            s.cv.notify_all();
            g = s.wait_turn(g, MAIN);
            if g.deadlock || g.abort {
                g.abort = true;
                s.cv.notify_all();
            }
        }
    });
    let mut g = lock_inner(&s);
    cx.ch = std::mem::replace(&mut g.ch, Chooser::replay(Vec::new()));
    cx.digest = g.digest;
    cx.skeleton = g.skeleton;
    cx.st.steps += g.events.len() as u64;
    for _ in 0..g.switches { cx.fault("thread_switch"); }
    for p in g.probes.clone() {
        if D3_FAULTS.contains(&p) { cx.fault(p); } else { cx.probe(p); }
    }
    if g.events.iter().any(|(_, s)| s.starts_with("wg_")) { cx.probe("hook_points_seen"); }
    if g.events.iter().any(|(_, s)| *s == "waker_clone") { cx.probe("waker_clone_points_seen"); }
    if g.events.iter().any(|(t, s)| *t == 0 && *s == "waker_wake") { cx.probe("wake_from_temp_arc_drop"); }
    if g.fresh_identity && g.polls >= 2 { cx.probe("repolled_with_new_waker_identity"); }
    if g.stale_wakes > 0 { cx.probe("stale_waker_woken"); }
    if cx.trace || cx.want_sample {
        let tr: Vec<String> = g.events.iter().map(|(t, s)| format!("T{t}:{s}")).collect();
        if cx.trace { cx.events.extend(tr.iter().cloned()); }
        if cx.want_sample { cx.sample = Some(format!("tokens={n_tokens} droppers={n_droppers} poll_before={poll_before} schedule: {}", tr.join(" "))); }
    }
    cx.nontrivial = g.switches > 0;
    cx.state(fnv_u64(g.switches, g.polls));
    if let Some(v) = g.violation.clone() {
        return Err(v);
    }
    if g.deadlock {
        vfail!("c14_lost_wakeup", "threads", "all {} token drops finished ({} begun) but the shutdown future's task is blocked with no wake-up pending (polls {}, wakes {}); last poller site {:?}",
            g.drops_done, g.drops_begun, g.polls, g.wakes, g.last_site[0]);
    }
    vcheck!(g.ready_seen, "c14_shutdown_not_ready", "poller finished without observing Ready");
    vcheck!(g.drops_done == g.tokens_total, "harness_model", "not all drops done");
    Ok(())
}
