#!/usr/bin/env python3
"""Generates /verif/MANIFEST.json from the table below (kept in one place so it stays valid)."""
import json, os, sys

HERE = os.path.dirname(os.path.dirname(os.path.abspath(__file__)))

TECH = "deterministic simulation with fault injection"

CHECKS = {
    "C01": dict(engine="D1", cat="exploration", ref="DESIGN.md 4/C01",
        text="Seeded search over preamble contents, record cuts, padding, noise placement, buffer sizes and read schedules; every run is compared field by field with an independent one-shot reference model and re-run under two more schedules. Evidence over the sampled runs, not a proof; directed biases (cuts inside length prefixes, pairs over 3+ records, exact-fill reads, tight buffers) aim the sample at the stated risks. A quarter of the preambles follow one or two attempts that the client aborted during Params on the same parser object; at seeded moments the driver continues on a clone() of the parser or on an older copy refreshed with clone_from.",
        note="Trusted: the harness's own wire codec and M-preamble (written from the specification); std::String::from_utf8_lossy as the lossy-decoding reference. Assumes buffer >= longest pair + 13.",
        technique=TECH + ": caller-schedule simulator over request::Parser, seeded chunking/segmentation search vs. reference model"),
    "C02": dict(engine="D1+D2", cat="exploration", ref="DESIGN.md 4/C02",
        text="Seeded search over stream contents, segmentation, noise and caller schedules (parse into caller buffers of any size or the internal buffer, consume, compress, drain output, select, continue on a clone() or on an older copy refreshed with clone_from) behind a real request-parser hand-off; every delivered byte is checked against M-stream at its offset after every step, end-of-stream exactly at the terminator. The same extraction is also observed through the async Request (scenario async_delivery: the C09 connection scenario with caller buffers of 0..70000 bytes, buffered and vectored reads, Pending and short reads, reply flushes that return Pending).",
        note="Trusted: wire codec and M-stream. Caller respects documented preconditions.",
        technique=TECH + ": caller-schedule simulator over stream::Parser vs. reference model"),
    "C04": dict(engine="D1", cat="exploration", ref="DESIGN.md 4/C04",
        text="Seeded traffic dense in reply-eliciting records at every position class, bodies split at every offset by 1-byte schedules; the concatenated parser output is a prefix of the model's reply list at every step and equal at quiescence (exactly-once, order, type, id, status, body in one comparison); reported output counts equal buffer growth. One case in 40 carries a GetValues query of 257..1200 pairs (well-known names behind the 256th) in a buffer that holds it whole.",
        note="Trusted: wire codec (independent GetValuesResult/EndRequest/Unknown encoders) and the models' reply rules.",
        technique=TECH + ": caller-schedule simulator, reply stream vs. reference model"),
    "C05": dict(engine="D1+D2", cat="exploration", ref="DESIGN.md 4/C05",
        text="k sequential requests on one wire through the real conversion chain with seeded look-ahead at each hand-off and seeded reader stop points; leftovers equal the unread suffix of the fed bytes at record boundaries, environments/streams equal per-request models. Scenario async_pipelined carries the chain through Token::run: a client sends k requests back to back without waiting for EndRequest, handlers end at the end-of-file of their final input stream, and all k requests must be served with the environments, stream contents and outputs of k separate connections under every transport read/write pattern.",
        note="Trusted: models; feeding discipline documented in DESIGN (bytes of request i+1 reach stream parser i only while it is held at the final terminator; in async_pipelined handlers never read while no stream is selected, since a parser without an active stream ignores everything it is given).",
        technique=TECH + ": caller-schedule simulator over the parser conversion chain"),
    "C06": dict(engine="D1", cat="exploration", ref="DESIGN.md 4/C06",
        text="Configuration sweep (buffer sizes 0..64 dense, residues near 4K/8K/64K/1M, random) with preambles whose critical pair sits exactly at the documented bound, under all chunk styles incl. exact-fill reads; effective size formula checked; after every parse() with done == false the input buffer must be non-empty. Beyond-the-buffer cases put the oversized pair into the Params stream or into a GetValues query. Scenario chain_handoff re-uses the C05 conversion chain, in which request parsers start from an inherited (possibly completely full) buffer, with the same invariant; chains of requests without pairs configure sizes 0..24 and check the effective size on both construction routes (request::Parser::new, stream::Parser::new + into_request_parser).",
        note="Trusted: M-preamble. B-12..B-8 and beyond-buffer pairs are run for totality and honest StuckOnInput reporting, not asserted to parse.",
        technique=TECH + ": configuration/schedule search over request::Parser"),
    "C18": dict(engine="D1+D2", cat="exploration", ref="DESIGN.md 4/C18",
        text="The 27-row selection table (3 roles x current x requested) is decided exhaustively on every run of the check; histories with every stream type in every order and set_stream at arbitrary moments (early advance, re-selection, every rejected selection) are searched by seed and compared with M-stream; rejected selections are attempted at arbitrary moments (mid-record included) and must change nothing. The async side (Request::set_stream, writeable()) is exercised by the C09 connection scenario registered here as async_selection.",
        note="Trusted: M-stream's hold-back rule. Non-stream record types as selections are outside the statement (debug assertion).",
        technique=TECH + ": exhaustive table + seeded history search over stream::Parser"),
    "C03": dict(engine="D1", cat="exploration", ref="DESIGN.md 4/C03",
        text="Seeded hostile inputs (random bytes and structured mutations of valid traffic) run under 2-3 independent schedules per input with every library call under catch_unwind (debug assertions and overflow checks live), repeated calls after the final state and conversions on clones at non-final states; outcomes are compared across schedules and with the one-shot reference models; errors must be sticky and silent.",
        note="Trusted: reference models on malformed input (they implement the same documented classification: version before type, BeginRequest length, role, id). StuckOnInput accepted only when a Params/GetValues record announces more content than the effective buffer.",
        technique=TECH + ": mutation-based hostile traffic under seeded schedules, cross-schedule and model comparison"),
    "C20": dict(engine="D4", cat="fault_enumeration", ref="DESIGN.md 4/C20",
        text="For each seeded response every destination capacity 0..=len+1 is enumerated against a sink that also injects short writes and Interrupted per a seeded script, in both full-sink modes, plus bounded &mut [u8] destinations; all 900 status codes are covered per batch; redirect locations include local paths, absolute URLs and strings of URL punctuation in any position; rare cases have hundreds of header lines or values above 64 KiB (capacities then sampled). Output bytes, returned count, failure on insufficient capacity and prefix-on-failure are checked.",
        note="Trusted: http crate's canonical_reason as the reason-phrase reference; the expected grammar is built by the harness from the documented format.",
        technique=TECH + ": fault-injecting io::Write sink, capacity exhaustion enumerated at every byte"),
    "C07": dict(engine="D2", cat="exploration", ref="DESIGN.md 4/C07",
        text="Seeded search over connection histories: the real Token::run task on a deterministic executor over a simulated transport (reads of 1..n bytes or Pending, writes accepting 1..n bytes or Pending at every call, spurious polls), a compliant open-loop client with 1..4 requests and noise records, and a chooser-driven handler family. The decoded transport log and handler log are compared with M-conn: one invocation per request with the model's environment and input prefix, handler output, Stdout{} Stderr{} and exactly one EndRequest with the mapped status, replies exactly once in order and after their query and - for every query that lies before input the request had already parsed - before that request's EndRequest, reuse iff keep-conn, task termination. One run in 16 is a long-lived connection of 5..12 requests; half of the runs give every poll a Waker of its own (wake-ups through older ones are lost); scenario reuse_after_abort re-uses the C11 connection scenario (an abort is not an I/O error: the next request must be served).",
        note="Trusted: M-conn, wire codec. The order of a management reply relative to EndRequest is constrained only for queries that provably were parsed during the request (they lie before input its handler received).",
        technique=TECH + ": deterministic executor + simulated transport + peer model, history checked against reference model"),
    "C08": dict(engine="D2", cat="exploration", ref="DESIGN.md 4/C08",
        text="The same connection machinery in strict wake-only mode with the closed-loop peer of the quantifier; invariant evaluated at every suspension on the transport read (all replies for complete records already read are in the transport log) and wait-for-cycle detection at quiescence, with queries placed before, between and during requests and mid-stream. Found and now guards the two repaired defects F1/F2. Scenario closed_loop_duplex runs the same peer against handlers with concurrent writer and reader sub-tasks (a writer holds the output lock across Pending writes while the reader owes a reply); scenario query_then_more_in_one_burst lets further records follow a query in the same burst and evaluates the invariant whenever the task suspends having read a whole number of records; one burst plan in 60 has 257..1500 reply-owing records arriving as one burst in a buffer that holds them.",
        note="Trusted: executor strictness (a task is polled only after its waker fired), M-conn reply list. The closed-loop scenarios are valid under the closed-loop peer only (whole records, later ones withheld); the burst scenario evaluates the invariant at record boundaries only, because close() legitimately defers a reply while it waits for the rest of a record it is skipping.",
        technique=TECH + ": strict deterministic executor + closed-loop peer, suspension-point invariant and deadlock detection"),
    "C09": dict(engine="D2", cat="exploration", ref="DESIGN.md 4/C09",
        text="Scenario hand_built_request builds the request by hand (sync request parser with or without look-ahead, into_stream_parser(), later stream optionally pre-selected, Request::new) and applies the same reader handlers and gating oracle. Seeded search over handler call sequences on the async read interfaces (poll_read with buffers of 0..70000 bytes, poll_fill_buf+consume(k), set_stream, writeable()), transport read patterns and write-side readiness, with management records arriving mid-stream; bytes received per stream compared with M-stream (prefix; equality and sticky end-of-file once end-of-file was seen), is_writeable() sampled after every poll against the model's gating condition, output_stream()/set_stream() rejections probed under catch_unwind.",
        note="Trusted: M-stream, M-conn. Compliant client.",
        technique=TECH + ": deterministic executor + simulated transport, handler-visible reads vs. reference model"),
    "C10": dict(engine="D2+D5", cat="exploration", ref="DESIGN.md 4/C10",
        text="1..3 writers on separately woken sub-futures plus a reader sub-future, seeded poll order, write sizes incl. 0/65535/65536+, plain and gathered (poll_write_vectored, 2..4 slices) writes, flushes, a transport cutting every vectored write anywhere (inside the header, at the seam, inside padding) or returning Pending: the transport log must decode into complete records which, in completion order, equal the successful writes (type, id, payload, padding rule), with management replies as whole records. Writes are sometimes re-polled with a longer buffer than the one that set the record up, and a third of the runs inject one transient write error after which the writers retry (documented: the lock is kept and the record continued). Extra: writers on different OS threads (strict poll-when-woken loops) plus a reader thread that drives the request's own reply flushing, over a transport that accepts 3 bytes per call and yields while the caller holds the output lock, with wake callbacks that wait (bounded) for the woken thread's next poll, under Miri's seeded scheduler, 24 / 2048 schedules, log decoded the same way.",
        note="Trusted: wire decoder; completion order equals lock-release order in a single-threaded executor.",
        technique=TECH + ": deterministic executor with per-sub-future wakers + write-cutting transport, log decoded and compared"),
    "C11": dict(engine="D1+D2", cat="exploration", ref="DESIGN.md 4/C11",
        text="Sync: own-id AbortRequest after a random stream-phase record is reported, sticky, retained and skipped by the next request parser; during Params it yields exactly one EndRequest and no request. Async: aborts at random stream-phase positions in 1..3-request connections with reading / buffered-reading / non-reading / past-EOF handlers that propagate or swallow the error; EndRequest count and status (ABRT unless the handler chose its own), ConnectionAborted only where the model has the abort, delivered input a prefix, foreign-id aborts ignored, next request served.",
        note="Trusted: M-stream/M-conn abort rules. Empty Stdout/Stderr records after an abort are treated as optional.",
        technique=TECH + ": caller-schedule simulator + deterministic executor, abort placed at seeded record positions"),
    "C12": dict(engine="D2", cat="fault_enumeration", ref="DESIGN.md 4/C12",
        text="Per seeded scripted connection the fault points are enumerated: EOF at every input byte offset, a read error at every read call, a one-shot write error and a one-shot zero-length write at every write call, each in a fresh run replaying the choices of the fault-free run exactly up to the fault. A third of the scripts contain a request the client aborts; a handler that got the abort signal may write a last line before it passes the signal on (and returns the write's error if that fails). Checked: termination without panic or spinning, no handler for an incompletely received preamble, end-of-file seen by a handler only behind a delivered terminator (short reads surface as errors), no write after a failed write, no transport read after a reported read error (error kinds ConnectionReset / Interrupted / TimedOut / Other drawn per script), log = well-formed prefix consistent with the handler log. Scenario hostile_traffic: the script under the C03 mutation operators (or random bytes), ungated, then end-of-file: termination without panic or spinning, output = server records only.",
        note="Trusted: two spin detectors - the executor step cap for tasks that are re-polled for ever, and a per-poll cap on transport calls (2 000 000) for a poll that keeps calling the transport without returning; a poll that loops without touching the transport would still hang the check. Handlers propagate I/O errors. The fault list also contains a flush error at every flush call; a share of the scripts (those without aborted requests) use concurrent writer sub-tasks that are dropped where they stand when one fails.",
        technique=TECH + ": fault-point enumeration over a replayed seeded script (EOF / read error / write error / zero write at every index)"),
    "C14": dict(engine="D2+D3+D5", cat="exploration", ref="DESIGN.md 4/C14",
        text="Connection side (client waits for each EndRequest or, in a quarter of the runs, pipelines its requests): Runner::shutdown requested as a scheduler event at a seeded step (before the first read, mid-preamble, during the handler, during close, between requests, idle); started requests complete with their EndRequest, no handler starts in a poll that begins after the request, idle connections stop without another transport read, the shutdown future is Ready only after the token is dropped and its task is woken for it. Wait group: real threads under a serialising scheduler (one baton, seeded choice of the next thread at every harness operation, Waker callback and verif-hooks point) explore the interleavings of token drops with polls of the shutdown future, including the last drop landing between the liveness check and the waker registration and between registration and the drop of the temporary reference; Ready never early, no lost wake-up, and once Ready is seen a request on a clone of the runner (limit = number of tokens) is served at once (a dropped token no longer occupies its slot). Scenario multi_conn_shutdown stops 1..4 (one case in 50: 65..260) keep-alive connections of one runner at seeded stages: each is woken and stops, no handler starts afterwards, the shutdown future is Ready exactly when the last one is gone. The same clauses are additionally sampled under Miri's seeded scheduler (64 / 4096 schedules with preemption anywhere).",
        note="Trusted: executor strictness for the wake-up clauses; the thread scheduler is sequentially consistent and does not explore interleavings inside futures' AtomicWaker. A management reply being written by an idle connection may be cut by shutdown (statement is silent).",
        technique=TECH + ": deterministic executor with shutdown as a scheduled event + serialising thread scheduler (baton) over real threads"),
    "C13": dict(engine="D2+D5", cat="exploration", ref="DESIGN.md 4/C13",
        text="Seeded histories over a runner (limit 1..4) and its clones (Runner::clone, or an unrelated runner overwritten with clone_from): get_token futures created, polled with their own wakers, cancelled; tokens dropped unused, run to completion on simulated connections (client closes, one request, handler panic unwinding through Token::run); after every operation the live-token count is compared with the limit and, whenever a slot is free with requests queued, at least one queued request must have been woken since it last returned Pending; first-poll and woken-poll readiness are checked; requests are created by calling get_token() at creation time (created-but-unpolled futures are part of the histories) and connection tasks are advanced a few scheduler steps at a time between runner operations. The generator is biased towards two queued requests with two releases between polls (the coalescing shape). Thread clause: a program with a dropper thread and an acquirer polling queued get_token futures is interpreted by Miri under 32 (quick) / 2048 (thorough) seeded schedules with preemption anywhere; the scenario's wakers yield in their clone/wake/drop callbacks and a gate lets the other thread act (drop a token, queue a new request) at the instant a cancelled request releases its waker; afterwards no slot may be free next to an un-woken pending request.",
        note="Trusted: nothing inside async-lock/event-listener is modelled; they run as real code; in the history driver interleavings inside them are not explored (single thread, operation granularity), in the Miri extra they are (sampled by seed, sequentially consistent plus Miri's weak-memory emulation).",
        technique=TECH + ": seeded operation histories with per-future wakers against a counter model"),
}

NOT_APPLICABLE = [
    ("C15", "Pure function on 2^31 values (var-int encode/decode): no schedule, fault, interleaving or carried state for a simulator to control; decidable by exhaustive enumeration or proof, which are other techniques. Boundary values are exercised incidentally by C01/C03/C04 traffic."),
    ("C16", "NVIter/nv::write are pure functions of a byte slice; the chunked-arrival consequence is simulated end to end in C01/C03/C04 through the resumable parsers, the codec law itself is not a simulation target."),
    ("C17", "Pure encode/decode tables for headers, fixed bodies, padding rule and status mapping; the reply bytes and epilogue are compared bit-for-bit inside C04/C07 as a side effect, which does not decide the whole-field enumeration this property quantifies over."),
    ("C19", "Eq/Ord/Hash/interning of CGI variable names are pure trait implementations on strings with no concurrency, time, I/O or multi-party behaviour; C01's lookups by re-spelling exercise them incidentally without deciding the property."),
]

def main():
    impl = sys.argv[1:] if len(sys.argv) > 1 else sorted(CHECKS)
    checks = []
    for pid in sorted(CHECKS):
        if pid not in impl:
            continue
        c = CHECKS[pid]
        checks.append({
            "property_id": pid,
            "quick_cmd": f"bin/check {pid} quick",
            "thorough_cmd": f"bin/check {pid} thorough",
            "evidence_file": f"evidence/{pid}.json",
            "replay_cmd_template": "bin/check replay {path}",
            "engine": c["engine"],
            "level_claimed": {"category": c["cat"], "text": c["text"], "design_ref": c["ref"]},
            "level_note": c["note"],
            "technique": c["technique"],
        })
    na = [{"property_id": p, "reason": r} for p, r in NOT_APPLICABLE]
    claimed = {c["property_id"] for c in checks}
    allp = [json.loads(l)["id"] for l in open(os.path.join(HERE, "properties.jsonl"))]
    for p in allp:
        if p not in claimed and p not in {x["property_id"] for x in na}:
            na.append({"property_id": p, "reason": "check not built yet in this revision of /verif (planned in DESIGN.md section 4); not claimed until its simulator driver exists"})
    m = {
        "version": 1,
        "setup_cmd": "bin/setup",
        "hooks": {
            "guard": "cargo feature verif-hooks",
            "enable": "the simulator crate /verif/sim depends on /repo by path with features async,http,verif-hooks (cargo build --release --offline --features hooks)",
            "baseline_off_cmd": "cd /repo && cargo test --workspace --no-fail-fast --offline",
            "source_commits": ["122a3c0"],
            "fix_commits": ["23fc2ba", "7771926"],
            "add_only": True,
        },
        "engines": [
            {"name": "D1", "path": "sim/src/d1req.rs, sim/src/d1stream.rs", "serves_properties": ["C01", "C02", "C03", "C04", "C05", "C06", "C11", "C18"], "kind_free_text": "caller-schedule simulator for the sync parsers: one seeded choice sequence decides traffic, segmentation, read chunking and caller actions; reference models M-preamble/M-stream as oracles"},
            {"name": "D2", "path": "sim/src/exec.rs, sim/src/d2*.rs", "serves_properties": ["C07", "C08", "C09", "C10", "C11", "C12", "C13", "C14"], "kind_free_text": "single-threaded deterministic executor (strict wake-only polling) + simulated AsyncRead/AsyncWrite transport with short reads/writes, Pending, EOF and error injection + open/closed-loop peer model + scripted handlers"},
            {"name": "D3", "path": "sim/src/d3.rs", "serves_properties": ["C13", "C14"], "kind_free_text": "serialising thread scheduler: real threads, one baton, seeded choice of the next holder at harness operations, waker callbacks and verif-hooks scheduling points"},
            {"name": "D5", "path": "miri/src/main.rs, sim/src/miri.rs", "serves_properties": ["C10", "C13", "C14"], "kind_free_text": "Miri interpreter as a second thread simulator: a small program on real std threads using the real library, one exactly repeatable schedule per seed (-Zmiri-many-seeds, two preemption rates), preemption anywhere incl. inside async-lock / event-listener under their locks; replay = the seed"},
            {"name": "D4", "path": "sim/src/d4.rs", "serves_properties": ["C20"], "kind_free_text": "fault-injecting io::Write sink: short writes, Interrupted, capacity exhaustion at every byte"},
        ],
        "checks": checks,
        "not_applicable": na,
        "notes": "Every check runs two builds of the same simulator: the main pass with debug assertions and overflow checks on (writes the evidence) and a secondary pass over a fifth of the batch with both off, as in a shipped build (replay files tagged profile=relna; bin/check replay picks the matching build); the exit code is the worse of the two. A run that does not finish within VERIF_HANG_S (default 300) seconds is reported by a watchdog as a hang violation with a seed replay (the check exits 1 instead of hanging). All checks share one binary (sim/target/release/fcgisim) rebuilt from /repo's working tree by bin/check. Exit 0 = held on everything explored; 1 + 'VIOLATION property=<id> replay=<path>'; 2 = harness error. VERIF_SEED selects the batch; replay files are choice lists.",
    }
    with open(os.path.join(HERE, "MANIFEST.json"), "w") as f:
        json.dump(m, f, indent=1)
        f.write("\n")

main()
